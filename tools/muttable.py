#!/venv/bin/python
"""tools/muttable.py -> validation/mutants.md from validation/mutants.json + validation/mutants_campaign.json"""
import json, os

HERE = os.path.dirname(os.path.dirname(os.path.abspath(__file__)))
muts = {m["label"]: m for m in json.load(open(os.path.join(HERE, "validation", "mutants.json")))}
res = {m["label"]: m for m in json.load(open(os.path.join(HERE, "validation", "mutants_campaign.json")))}
notes = {}
try:
    notes = json.load(open(os.path.join(HERE, "validation", "mutant_notes.json")))
except OSError:
    pass
out = ["# One-line mutants (tools/trymut.py / tools/mutcampaign.py)", "",
       "Each mutant replaces one expression in `src/nanoemoji/<file>` in a scratch worktree; `tests` is the pinned suite on the mutated tree",
       "(a mutant that fails it would be caught by the repository's own tests and is listed for completeness only).", "",
       "| mutant | file | old -> new | pinned tests | checks (exit, violations, first report) | note |", "|---|---|---|---|---|---|"]
for label, m in muts.items():
    r = res.get(label, {})
    ch = "; ".join(f"{c}: exit {v['exit']}, {v['violations']} - {v['first'][:70]}" for c, v in (r.get("checks") or {}).items()) or "not run"
    old = m["old"].strip().replace("|", "\\|")[:70]
    new = m["new"].strip().replace("|", "\\|")[:70]
    out.append(f"| {label} | {m['file']} | `{old}` -> `{new}` | {r.get('tests', '?')[:40]} | {ch} | {notes.get(label, '')} |")
open(os.path.join(HERE, "validation", "mutants.md"), "w").write("\n".join(out) + "\n")
print(len(muts), "mutants")
