#!/venv/bin/python
"""tools/seednote.py <name> <text> — append a line to the "history" list of seeded/<name>/meta.json"""
import json, os, sys

HERE = os.path.dirname(os.path.dirname(os.path.abspath(__file__)))
p = os.path.join(HERE, "seeded", sys.argv[1], "meta.json")
m = json.load(open(p))
m.setdefault("history", []).append(sys.argv[2])
json.dump(m, open(p, "w"), indent=1)
