#!/venv/bin/python
"""tools/seedcheck.py <ID> [extra check ids...]
Confirms every seeded change a sub-agent left in /tmp/seed/<ID>/seeded/ (applies to a scratch worktree of /repo HEAD,
pinned tests must pass, demo must fail with it and pass without it), runs the checks against it and stores the kept
ones under /verif/seeded/<ID>-<k>/ (patch.diff, demo.py, notes.md, meta.json)."""
import json, os, shutil, subprocess, sys, tempfile, time

HERE = os.path.dirname(os.path.dirname(os.path.abspath(__file__)))
pid = sys.argv[1]
extra = sys.argv[2:]
src = os.environ.get("SEED_ROOT", "/tmp/seed") + f"/{pid}/seeded"
offset = int(os.environ.get("SEED_OFFSET", "0"))  # round 2 deliverables are stored as <ID>-3, <ID>-4


def run_demo(demo, tree):
    env = dict(os.environ, NANOEMOJI_TREE=tree, PYTHONPATH=tree + "/src", PATH="/venv/bin:" + os.environ["PATH"])
    env.pop("NANOEMOJI_VERIF", None)
    try:
        p = subprocess.run(["/venv/bin/python", demo], capture_output=True, text=True, env=env, timeout=900, cwd=os.path.dirname(demo))
        return p.returncode, (p.stdout + p.stderr)[-600:]
    except subprocess.TimeoutExpired:
        return None, "timeout"


for k in (1, 2, 3):
    diff = f"{src}/change{k}.diff"
    if not os.path.exists(diff):
        continue
    d = tempfile.mkdtemp(prefix="seedchk-")
    meta = {"property": pid, "change": k + offset, "checked_at_repo_commit": subprocess.run(["git", "-C", "/repo", "rev-parse", "--short", "HEAD"], capture_output=True, text=True).stdout.strip()}
    try:
        subprocess.run(["git", "-C", "/repo", "worktree", "add", "-q", "--detach", d + "/r"], check=True, capture_output=True)
        tree = d + "/r"
        demo_src = f"{src}/demo{k}.py"
        demo = d + f"/demo{k}.py"
        shutil.copy(demo_src, demo)
        rc0, out0 = run_demo(demo, tree)
        meta["demo_on_original"] = {"exit": rc0, "tail": out0[-200:]}
        ap = subprocess.run(["git", "-C", tree, "apply", diff], capture_output=True, text=True)
        if ap.returncode != 0:
            meta["apply_error"] = ap.stderr[-300:]
            print(json.dumps(meta))
            continue
        r = subprocess.run([os.path.join(HERE, "bin/baseline.py"), tree], capture_output=True, text=True)
        meta["pinned_tests"] = r.stdout.strip().splitlines()[0] if r.stdout else "?"
        meta["pinned_tests_pass"] = r.returncode == 0
        rc1, out1 = run_demo(demo, tree)
        meta["demo_with_change"] = {"exit": rc1, "tail": out1[-300:]}
        meta["confirmed"] = bool(meta["pinned_tests_pass"] and rc0 == 0 and rc1 not in (0, None))
        meta["checks"] = {}
        for c in [pid] + extra:
            for tier in ("quick",):
                t0 = time.time()
                env = dict(os.environ, VERIF_REPO=tree)
                r = subprocess.run([os.path.join(HERE, "bin/check"), c, "--tier", tier], capture_output=True, text=True, env=env)
                v = [l for l in r.stdout.splitlines() if l.startswith("VIOLATION")]
                meta["checks"][f"{c}:{tier}"] = {"exit": r.returncode, "violations": len(v), "first": (v[0].split("#", 1)[-1].strip()[:160] if v else ""), "wall_s": round(time.time() - t0, 1)}
        try:
            meta["needs_to_manifest"] = open(f"{src}/notes{k}.md").read()[:1500]
        except OSError:
            pass
        if meta["confirmed"]:
            dest = os.path.join(HERE, "seeded", f"{pid}-{k + offset}")
            os.makedirs(dest, exist_ok=True)
            shutil.copy(diff, dest + "/patch.diff")
            shutil.copy(demo_src, dest + "/demo.py")
            if os.path.exists(f"{src}/notes{k}.md"):
                shutil.copy(f"{src}/notes{k}.md", dest + "/notes.md")
            meta["what_i_ran"] = f"git apply patch.diff in a scratch worktree of /repo@{meta['checked_at_repo_commit']}; bin/baseline.py <tree>; demo.py on original and changed tree; VERIF_REPO=<tree> bin/check <ID> --tier quick"
            json.dump(meta, open(dest + "/meta.json", "w"), indent=1)
        print(json.dumps({k_: v for k_, v in meta.items() if k_ != "needs_to_manifest"}))
    finally:
        subprocess.run(["git", "-C", "/repo", "worktree", "remove", "--force", d + "/r"], capture_output=True)
        shutil.rmtree(d, ignore_errors=True)
