#!/venv/bin/python
"""Regenerates MANIFEST.json from the table below (kept in one place so it stays valid)."""
import json
import os
import sys

HERE = os.path.dirname(os.path.dirname(os.path.abspath(__file__)))

TRUST = "fontTools table readers, numpy, lxml, the real picosvg (its output is the reference form), the reference interpreters under vf/oracle (cross-checked against fontTools getTransform / resvg where stated)"

CHECKS = {
    "C01": dict(
        level="exploration",
        technique="runtime monitoring: reference-interpreter oracle (SVG evaluator vs COLRv1 evaluator) over generated builds + inline contracts H1/H2/H3/H7 on the real functions",
        text="Every generated font is built by the real pipeline in-process; for every source the glyph reached by a mini-shaper is interpreted by an independent COLRv1 evaluator and compared layer by layer (outline Hausdorff distance, inside/outside grid, colour at interior points with a gradient-parameter envelope, opacity-group structure, clip box) with an independent SVG evaluator run on the picosvg-normal source placed by the statement's affine. Held-on-observed only: reach comes from generator diversity (shapes, gradients, units, transforms, spread, groups, viewBoxes, metrics, user transforms, reuse across glyphs).",
        design="3/C01",
    ),
    "C02": dict(
        level="exploration",
        technique="runtime monitoring: SVG-document evaluator (use/defs/inheritance) vs source evaluator over generated OT-SVG builds; resvg pixel oracle for untouchedsvg; contracts H2/H9",
        text="Generated source sets with shapes shared across glyphs are compiled to picosvg/picosvgz in-process; the glyph id reached by the mini-shaper must lie in exactly one document with exactly one glyph<ID> element, whose evaluation in OT-SVG space is compared layer by layer with the source placed as in C01. untouchedsvg[z]: the emitted element and an independently placed copy of the raw source are rasterised by resvg and compared pixelwise under an edge budget. Held-on-observed only.",
        design="3/C02",
    ),
    "C03": dict(
        level="exploration",
        technique="runtime monitoring: layer/contour matching oracle (COLRv0 records + CPAL, glyf components, CFF charstrings) against the source evaluator over generated builds",
        text="COLRv0 and glyf builds of generated source sets: for solid-only sources the COLRv0 layers (colour and alpha from CPAL) are compared layer by layer with the source and the base glyph bounds must cover them; for any source every source contour must be matched one-to-one (maximum bipartite matching under the outline tolerance) by a contour of the layers / components / inlined outline, leftovers must have zero area.",
        design="3/C03",
    ),
    "C05": dict(
        level="exploration",
        technique="runtime monitoring: clip boxes read from the binary vs independently evaluated source and compiled geometry; contract H3 on write_font._bounds",
        text="For every colour glyph of generated COLRv1 fonts (reuse by rotation/reflection/scale, user transforms, content outside the viewBox, quantisation default/1/arbitrary) the ClipBox from the binary must contain each source shape placed by the statement's affine, the compiled outlines pushed through the paint transforms may protrude at most 1*sigma+fixed-point error, edges must be multiples of the step, and glyphs that paint nothing must have no box.",
        design="3/C05",
    ),
    "C04": dict(
        level="exploration",
        technique="runtime monitoring: mini-shaper + identity-stamped sources over generated builds in all 13 formats; name-collision recorder H8",
        text="Fonts in every colour format are built from identity-stamped sources (unique colour and size, PNG bytes for bitmap formats) whose file names encode hostile codepoint sequences and go through the real write_glyphmap / features / write_font code. A cmap+ccmp mini-shaper must reach exactly one glyph per sequence, the identity recovered from that glyph (COLR layer colour, SVG fill, stored PNG bytes, outline bounds) must be the source's, distinct sources must reach distinct glyphs, .notdef / space / sequence-only codepoints must be as stated and every advance must follow the rule. Near-miss spellings of each source (VS16/ZWJ dropped or added, prefix, suffix, reversal) that are not sources must not end on a source's glyph.",
        design="3/C04",
    ),
    "C06": dict(
        level="exploration",
        technique="runtime monitoring: metamorphic pair oracle (reuse on vs off) with display-list comparison; contracts H2 (reuse result geometry) and H10 (fall-back branch counters)",
        text="Recurrence-heavy source sets are built twice from identical inputs (reuse_tolerance t>=0 and -1) as COLRv1, COLRv0 and picosvg; both builds must succeed (or both be refused for range) and the evaluated display lists must agree layer for layer within 1.5*t*nseg plus quantisation; the reuse build must actually reuse (hit counters) and the other must not.",
        design="3/C06",
    ),
    "C07": dict(
        level="exploration",
        technique="runtime monitoring: struct-level binary validators + load/decompile/save/reload equality over every generated font",
        text="Every font the in-process lane writes (all 13 formats, .ttf/.otf, coloured .notdef at any input position, shared-shape SVG documents, bitmap runs with gid gaps) is fully loaded, re-saved and reloaded with table-by-table XML equality, and its raw bytes are parsed by validators written from the spec for COLR v0/v1 record order and references, SVG document index order/disjointness/ids/hrefs/cross-glyph references, CBLC/CBDT runs and offsets, sbix, and cmap/hmtx/loca|CFF/maxp/post agreement incl. the post-format rule. maximum_color outputs go through the same validator in C12.",
        design="3/C07",
    ),
    "C10": dict(
        level="exploration",
        technique="runtime monitoring: writer->reader round-trip oracles on the real serialisers over generated values (config TOML under flag/file/default combinations, glyph-map CSV, file names, glyph names + feaLib compile, parts JSON, response files); contracts H5/H6/H8 run the same oracles inside every build",
        text="Generated FontConfig values (every field, hostile strings, 1-3 axes/masters) are written with config.write and loaded back with config.load under every flag/file/default combination with expected = flag, else file, else default; glyph mappings, file names, codepoint sequences, glyph names (injective, accepted by feaLib), reusable-parts files from the real part-file code and ninja-style response files go through their real writer/reader pairs. Held-on-observed; two third-party/format limitations are recorded as findings (F16 toml string escaping, F7 CSV leading space).",
        design="3/C10",
    ),
    "C15": dict(
        level="exploration",
        technique="runtime monitoring: spec-predicate oracle on uniq_sort_cpal_colors, exhaustive over the small universe of the statement (82160 sets x 3 orders) + CPAL/COLR read-back of generated fonts; contract H4 on every palette built anywhere",
        text="Function part is enumerated completely for <= 6 colours over 3 RGBA values x index in {None,0..5} (exhaustive for that universe), each set in three input orders, against a predicate coded from the statement; font part builds COLRv0/v1 fonts whose fills and stops use indexed / unindexed / currentColor colours with opacities and reads CPAL entries, palette indices and alphas back from the binary.",
        design="3/C15",
    ),
    "C16": dict(
        level="exploration",
        technique="runtime monitoring: compile/decompile round-trip oracle with a field-quantum error model on paint.transformed, gradient-parameter invariance on apply_transform, recomposition of the uniform/residual split, spec matrices vs Paint.from_ot(...).gettransform(); contracts H1/H7 inside every build",
        text="Boundary-targeted affines and gradients are pushed through the real encoder functions, compiled into a real COLR table with fontTools and decompiled; the decompiled paints must compose to the requested affine within what half a quantum of each F2Dot14/Fixed field explains (integer fields must be exact), out-of-range values must end in a wider encoding or an exception, gradient colour parameters must be preserved, and nanoemoji's gettransform of every static transform paint must equal the spec matrix. Lane E drives svg._apply_paint with gradients under 1-3 nested transform paints plus an incoming reuse transform and judges the written gradient with the independent SVG evaluator (exact 3-decimal rounding box). The repository's own test suite is also run with every contract installed.",
        design="3/C16",
    ),
    "C11": dict(
        level="exploration",
        technique="runtime monitoring: name-keyed layout-meaning extractor before/after reorder_glyphs+save+reload, coverage / PairSet order validator on the reloaded binary, fontTools 'not sorted' warning events as a monitor",
        text="Generated fonts carrying every GSUB/GPOS lookup type and format (feaLib-compiled plus hand-assembled Context/ChainContext formats 1-3, extension lookups), GDEF attach/caret lists and a COLR table are reordered by six kinds of permutation; after save and reload the name-keyed meaning of every lookup, cmap, hmtx, outlines and COLR must be unchanged and every Coverage (and PairSet) of the saved binary must be in increasing glyph id order. A (type, format) pair that is never generated makes the run inconclusive. Fonts come with glyf, CFF and CFF2 outlines; chaining, reverse-chaining and contextual-positioning lookups are Extension-wrapped in part of them.",
        design="3/C11",
    ),
    "C13": dict(
        level="exploration",
        technique="runtime monitoring: COLR evaluator vs SVG evaluator on colr_to_svg output for generated paint graphs; captured absl warnings / exceptions for planted unsupported nodes",
        text="Synthetic COLRv0/v1 fonts with random paint graphs over the supported set (all static transform paints, nested layers, colour-glyph references, group composites, linear/radial gradients, 1-3 palettes, composite outline glyphs) are converted with colr_to_svg under four kinds of viewBox; the returned SVG is evaluated and compared layer by layer with the paint graph's display list, colour conventions (currentColor, var(--colorN)) are checked, and a planted unsupported node must produce an exception or a warning. The outline glyphs include quadratic blobs, TrueType contours without on-curve points and a composite whose mirrored component overlaps the unmirrored one.",
        design="3/C13",
    ),
    "C14": dict(
        level="exploration",
        technique="runtime monitoring: bitmap placement spec predicate over CBDT/CBLC and sbix read back from generated fonts",
        text="CBDT and sbix fonts are built in-process from Pillow-made PNGs (square with any width, non-square narrow/wide in proportional and fixed-width mode, awkward metrics, resolutions up to and beyond the 8-bit limits, gid gaps); stored bytes, strike ppem, the bitmap box against the scaled em box, and the pixel advance are checked per glyph; unrepresentable inputs must be refused.",
        design="3/C14",
    ),
    "C19": dict(
        level="exploration",
        technique="runtime monitoring: storage observation (which outline each copy is drawn from) + audit of every miss from contract H2's log of pre-rounding normal forms against four recorded third-party mechanisms",
        text="Fonts made of congruent copies of one prototype (exact tier: integer coordinates, k*90 degree rotations, mirrors; arbitrary tier: any isometry) are built as COLRv0, COLRv1 and picosvg; every copy must be drawn from one outline, a control build with reuse disabled must store them separately. The property does not hold as stated on this tree (finding F6): each miss is attributed by re-running picosvg's normalisation / affine recovery on the unrounded shapes to K1 rounding straddle, K2 insignificant-y mirror, K3 affine_between failure or K4 threshold straddle; any other miss is a violation. A related-classes lane holds a polygon, rings over the same outer contour and a near-duplicate as pure integer translations in any order: every class must be stored exactly once.",
        design="3/C19",
    ),
    "C08": dict(
        level="exploration",
        technique="runtime monitoring: repeated real CLI builds under perturbed schedules (ninja -j, injected per-step delays), argument orders, hash seeds and directories; byte-equality oracle over sha256; step event logs count the distinct completion orders observed",
        text="Each (format, source set) class is built six times by the real nanoemoji CLI with permuted arguments, glob vs list in TOML, four PYTHONHASHSEED values, -j1/-j4/-j16 with randomised step delays injected by PATH shims and a sitecustomize module, deep build directories with spaces, different working directories and relative vs absolute paths; font, feature file and glyph-map rows must hash equal. An in-process multiplier rebuilds generated source sets in fresh interpreters under four hash seeds. Held on the schedules observed (their count is in the evidence). CLI classes also spread sources over two directories spelled from either, include an ambiguous class (same file name in both directories: same outcome required for every spelling), and reach one build directory through a symbolic link.",
        design="3/C08",
    ),
    "C09": dict(
        level="fault_enumeration",
        technique="runtime monitoring with fault injection: single-fault enumeration over every edge of the real ninja graph (fail / kill with truncated output), driver kills at every build statement, process-group SIGKILL, each in a first build and in an incremental rebuild, plus random edit/option/fault histories; convergence oracle = byte equality with a clean build, exit-status oracle from the event log",
        text="Faults are injected from outside (PATH shims for resvg/pngquant/ninja, sitecustomize for the driver, picosvg and every python -m step). For the quick tier the glyf_colr_1 graph is enumerated completely (every edge x {exit non-zero, killed after truncating its output}, driver killed after the config write and after each build statement, group kill), in a first build and in an incremental rebuild, plus samples of the picosvg and cbdt graphs and 16 random histories; the thorough tier enumerates all three graphs and 160 histories. After each history one fault-free invocation must reproduce the clean build's bytes and every invocation with a fired fault must have exited non-zero. Lane (c): fault-free enumeration of single-source edits and option changes on a populated build directory (one source's quantisation is declined by pngquant), each compared with the clean build. A variable-font lane edits a two-master configuration on a re-used build directory (remove, rename, modify one master, add, remove then add back).",
        design="3/C09",
        note="Trusted base: ninja's mtime/log semantics, the event log written by the shims; edits advance mtime; bytes comparable across directories (C08).",
    ),
    "C17": dict(
        level="exploration",
        technique="runtime monitoring: negative workloads through the real CLI (exit status + presence/bytes/mtime of the output font) and through _generate_color_font (exception required); accepted inputs are handed to the reachability oracle",
        text="One defect from each class of the statement (duplicate sequence in both naming schemes / hex case, malformed and truncated XML, unknown colour, pattern paint, missing gradient target, unknown spreadMethod, palette index conflict, masters with different source sets, oversize CBDT bitmap) is planted at a random position among 0-4 valid sources, in each applicable format, into a fresh build directory or one that already holds a font; the command must exit non-zero and the output font must be absent or byte- and mtime-identical. Unknown colours include rgb() with units or a wrong argument count.",
        design="3/C17",
    ),
    "C20": dict(
        level="exploration",
        technique="runtime monitoring: per-option observable map read from fonts written by the real CLI over the full (option, value, way) matrix, and byte equality of joint vs separate builds for multi-config invocations",
        text="Every FontConfig option with a user-visible observable is given by flag, by file, by both with different values (flag must win) and not at all (default), on small source sets in the format family it applies to; the observable is read from the font the CLI wrote. For every listed option pair two TOML configurations sharing sources are built in one invocation and each font must equal, byte for byte, the font its configuration produces alone. The whole matrix (185 cases, ~210 CLI builds) is enumerated on every run. The transform option is also observed in the OT-SVG and glyf families, and ten options are re-given with another value on a second run in a build directory that already holds a font. In every COLRv1 case where clipbox_quantization is not given the clip boxes must sit on multiples of round(2% of the font's upem).",
        design="3/C20",
    ),
    "C12": dict(
        level="exploration",
        technique="runtime monitoring: before/after comparators (name-keyed cmap, advances, outlines, layout meaning, original colour table) + COLR-vs-SVG display-list oracle + bitmap provenance + structural validator on fonts written by the real maximum_color CLI",
        text="Inputs are fonts nanoemoji itself built (COLRv1, COLRv0, picosvg, with GSUB ligatures) and synthetic third-party-style COLRv1 fonts (feaLib kerning, 1-3 palettes, no space glyph); maximum_color runs under ninja with combinations of --bitmaps, --colr_version and --keep_glyph_names. In the output the original colour table, cmap, advances, outlines and layout meaning must be unchanged (names recovered through the build's frozen-name intermediates when they are stripped), the complementary table must paint the same display list for every colour glyph reached from the same codepoints, every CBDT bitmap must be the PNG made for that glyph id, and the C07 validator must pass. Inputs also come with CFF/CFF2 outlines, with several independent shape-sharing groups (multi-glyph SVG documents across glyph id 8/16), with two blank glyphs between painted ones (three bitmap runs), with hhea metrics that differ from the typo metrics, and as minimal third-party fonts without spare glyphs (known finding F26).",
        design="3/C12",
    ),
    "C18": dict(
        level="exploration",
        technique="runtime monitoring: COLR evaluator at variation locations (gvar glyph sets, VarStore deltas for variable paints and ClipBox format 2) vs static builds of each master; interior-location clip-box containment",
        text="Multi-master configurations whose masters are consistent deformations of one prototype are built by the real CLI (per-master UFOs, write_variable_font); at every master location the VF's display list, advances and clip-box presence are compared with a static build of that master, the default location is the default master, and at t in {0.25,0.5,0.75} between neighbouring masters the clip box in force must contain the geometry at that location. 'Every location' is sampled, not enumerated. One or two axes (declared in either tag order), 2-4 masters with designer-style names and optional same-leaf source directories; a third of the cases edit a non-default master, re-run in the same build directory and compare that master again. Masters hold rectangles, polygons and ellipses, sometimes a shape that overhangs the viewBox in every master.",
        design="3/C18",
    ),
}

NOT_YET = {}


def main():
    props = [json.loads(l) for l in open(os.path.join(HERE, "properties.jsonl"))]
    checks = []
    na = []
    for p in props:
        pid = p["id"]
        if pid in CHECKS:
            c = CHECKS[pid]
            checks.append(
                {
                    "property_id": pid,
                    "quick_cmd": f"bin/check {pid} --tier quick",
                    "thorough_cmd": f"bin/check {pid} --tier thorough",
                    "evidence_file": f"evidence/{pid}.json",
                    "replay_cmd_template": f"bin/check {pid} --replay {{path}}",
                    "engine": "vf",
                    "level_claimed": {"category": c["level"], "text": c["text"], "design_ref": "DESIGN.md section " + c["design"]},
                    "level_note": c.get("note", "Trusted base: " + TRUST),
                    "technique": c["technique"],
                }
            )
        else:
            na.append({"property_id": pid, "reason": NOT_YET.get(pid, "check not built yet in this revision of /verif (runtime monitoring applies; see DESIGN.md section 3)")})
    m = {
        "version": 1,
        "setup_cmd": "bin/setup.sh",
        "hooks": {
            "guard": "NANOEMOJI_VERIF",
            "enable": "no source hooks: bin/check sets NANOEMOJI_VERIF=1 and PYTHONPATH=/repo/src:/verif:/verif/.deps; vf/hooks/contracts.py wraps the real functions at import time (in-process lane) and vf/hooks/site/sitecustomize.py does the same inside every CLI step (CLI lane)",
            "baseline_off_cmd": "cd /repo && /venv/bin/python -m pytest -ra -q -p no:cacheprovider --timeout=900 --continue-on-collection-errors",
            "source_commits": [],
            "add_only": True,
        },
        "engines": [{"name": "vf", "path": "vf/", "serves_properties": [c["property_id"] for c in checks], "kind_free_text": "runtime monitors: generated workloads driven through the real nanoemoji code (in-process API and CLI under ninja), reference interpreters as oracles, inline contracts on hooked functions, event-log and history checkers"}],
        "checks": checks,
        "not_applicable": na,
        "notes": "Repairs of genuine defects are separate 'fix:' commits in /repo and are listed in known_findings.jsonl as 'fixed:' lines; open findings are JSON lines there, keyed by mechanism.",
    }
    try:
        sys.path.insert(0, os.path.join(HERE, ".deps"))
        import jsonschema

        jsonschema.validate(m, json.load(open("/root/.vp/MANIFEST.schema.json")))
    except ImportError:
        pass
    with open(os.path.join(HERE, "MANIFEST.json"), "w") as f:
        json.dump(m, f, indent=1)
        f.write("\n")
    print(f"MANIFEST.json: {len(checks)} checks, {len(na)} not_applicable")


if __name__ == "__main__":
    main()
