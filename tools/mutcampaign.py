#!/venv/bin/python
"""Applies every mutant of validation/mutants.json (one at a time, own scratch worktree), runs the pinned tests and the
listed checks against it, writes validation/mutants.md.  tools/mutcampaign.py [label-substring]"""
import json, os, subprocess, sys, tempfile, shutil
from concurrent.futures import ThreadPoolExecutor

HERE = os.path.dirname(os.path.dirname(os.path.abspath(__file__)))
muts = json.load(open(os.path.join(HERE, "validation", "mutants.json")))
if len(sys.argv) > 1:
    muts = [m for m in muts if sys.argv[1] in m["label"]]


def one(m):
    d = tempfile.mkdtemp(prefix="mut-")
    out = {"label": m["label"], "file": m["file"], "checks": {}}
    try:
        subprocess.run(["git", "-C", "/repo", "worktree", "add", "-q", "--detach", d + "/r"], check=True, capture_output=True)
        f = os.path.join(d, "r", "src/nanoemoji", m["file"])
        s = open(f).read()
        if m["old"] not in s:
            out["error"] = "pattern not found"
            return out
        open(f, "w").write(s.replace(m["old"], m["new"], 1))
        r = subprocess.run([os.path.join(HERE, "bin/baseline.py"), d + "/r"], capture_output=True, text=True)
        out["tests"] = r.stdout.strip().splitlines()[0] if r.stdout else "?"
        out["tests_pass"] = r.returncode == 0
        for c in m["checks"]:
            env = dict(os.environ, VERIF_REPO=d + "/r", VERIF_NPROC="8")
            r = subprocess.run([os.path.join(HERE, "bin/check"), c, "--tier", "quick"], capture_output=True, text=True, env=env)
            v = [l for l in r.stdout.splitlines() if l.startswith("VIOLATION")]
            out["checks"][c] = {"exit": r.returncode, "violations": len(v), "first": (v[0].split("#", 1)[-1].strip()[:110] if v else "")}
    finally:
        subprocess.run(["git", "-C", "/repo", "worktree", "remove", "--force", d + "/r"], capture_output=True)
        shutil.rmtree(d, ignore_errors=True)
    print(json.dumps(out), flush=True)
    return out


with ThreadPoolExecutor(3) as ex:
    res = list(ex.map(one, muts))
path = os.path.join(HERE, "validation", "mutants_campaign.json")
prev = {}
if os.path.exists(path):
    prev = {x["label"]: x for x in json.load(open(path))}
for x in res:
    prev[x["label"]] = x
json.dump(list(prev.values()), open(path, "w"), indent=1)
