#!/venv/bin/python
"""tools/designtable.py: rewrites the seeded-change table of DESIGN.md section 10 (between the two markers) from
seeded/*/meta.json."""
import glob, json, os, re

HERE = os.path.dirname(os.path.dirname(os.path.abspath(__file__)))
lines = ["| id | change | reported by | widened |", "|---|---|---|---|"]
n = miss = unrep = 0
for d in sorted(glob.glob(os.path.join(HERE, "seeded", "*", "meta.json"))):
    m = json.load(open(d))
    name = os.path.basename(os.path.dirname(d))
    title = open(os.path.join(os.path.dirname(d), "notes.md")).readline().strip().lstrip("# ").strip()
    title = re.sub(r"^(C\d\d )?(seeded )?[Cc]hange ?\d\s*[-—–:]+\s*", "", title)
    title = re.sub(r"^Seeded change \d\s*[-—–:]+\s*", "", title)
    ch = m.get("checks", {})
    caught = sorted({k.split(":")[0] for k, v in ch.items() if v.get("exit") == 1 and v.get("violations", 0) > 0})
    n += 1
    hist = [h for h in (m.get("history") or []) if not h.startswith(("patch.diff rebased", "since fix"))]
    miss += bool(hist)
    unrep += not caught
    rep = ", ".join(caught) or "(none, see text)"
    if m.get("superseded_by_fix"):
        rep += f" (before fix {m['superseded_by_fix']}, which makes the change harmless)"
    lines.append(f"| {name} | {title[:110].replace('|', '/')} | {rep} | {'yes' if hist else ''} |")
p = os.path.join(HERE, "DESIGN.md")
s = open(p).read()
a, b = "<!-- seeded-table-begin -->", "<!-- seeded-table-end -->"
i, j = s.index(a) + len(a), s.index(b)
s = s[:i] + "\n" + "\n".join(lines) + "\n" + s[j:]
open(p, "w").write(s)
print(n, "changes,", miss, "with a widening history,", unrep, "not reported")
