#!/bin/sh
# tools/sweep.sh "<ids>" "<seeds>" [tier]  -- runs checks over seeds, prints verdict lines only (for vp run)
for id in $1; do for s in $2; do
  VERIF_SEED=$s bin/check $id --tier ${3:-quick} 2>&1 | grep -E "^$id tier|^VIOLATION|^INCONCLUSIVE|^KNOWN" | cut -c1-260
  if [ -d replay/$id ]; then mkdir -p sweepkeep/$id-$s && cp -r replay/$id/* sweepkeep/$id-$s/ 2>/dev/null; fi
done; done
