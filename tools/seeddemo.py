#!/venv/bin/python
"""tools/seeddemo.py <name>... — re-run a kept change's demonstration on /repo HEAD without and with its patch
(scratch worktree, removed afterwards); prints the two exit codes.  0/0 means the change is no longer a defect on HEAD."""
import os, shutil, subprocess, sys, tempfile

HERE = os.path.dirname(os.path.dirname(os.path.abspath(__file__)))
for name in sys.argv[1:]:
    d = tempfile.mkdtemp(prefix="seeddemo-")
    tree = d + "/r"
    try:
        subprocess.run(["git", "-C", "/repo", "worktree", "add", "-q", "--detach", tree], check=True, capture_output=True)
        env = dict(os.environ, NANOEMOJI_TREE=tree, PYTHONPATH=tree + "/src", PATH="/venv/bin:" + os.environ["PATH"])
        env.pop("NANOEMOJI_VERIF", None)
        demo = d + "/demo.py"
        shutil.copy(os.path.join(HERE, "seeded", name, "demo.py"), demo)
        run = lambda: subprocess.run(["/venv/bin/python", demo], capture_output=True, text=True, env=env, cwd=d, timeout=900).returncode
        r0 = run()
        ap = subprocess.run(["git", "-C", tree, "apply", os.path.join(HERE, "seeded", name, "patch.diff")], capture_output=True, text=True)
        r1 = run() if ap.returncode == 0 else "apply failed"
        print(name, "original", r0, "changed", r1)
    finally:
        subprocess.run(["git", "-C", "/repo", "worktree", "remove", "--force", tree], capture_output=True)
        shutil.rmtree(d, ignore_errors=True)
