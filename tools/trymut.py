#!/venv/bin/python
"""tools/trymut.py <label> <file-under-src/nanoemoji> <old> <new> -- <ID> [<ID>...]
Copies /repo to a scratch dir, applies one textual edit, checks that the pinned tests still pass,
runs the named checks against the copy (VERIF_REPO), prints their verdicts, removes the copy."""
import os, shutil, subprocess, sys, tempfile

args = sys.argv[1:]
sep = args.index("--")
label, rel, old, new = args[:sep]
ids = args[sep + 1 :]
tier = os.environ.get("VERIF_TIER", "quick")
d = tempfile.mkdtemp(prefix="mut-")
try:
    subprocess.run(["git", "-C", "/repo", "worktree", "add", "-q", "--detach", d + "/r"], check=True)
    f = os.path.join(d, "r", "src/nanoemoji", rel)
    s = open(f).read()
    if old not in s:
        print("MUTANT", label, "pattern not found")
        sys.exit(2)
    open(f, "w").write(s.replace(old, new, 1))
    if os.environ.get("SKIP_BASELINE") != "1":
        r = subprocess.run(["/verif/bin/baseline.py", d + "/r"], capture_output=True, text=True)
        print("MUTANT", label, "baseline:", r.stdout.strip().splitlines()[0] if r.stdout else r.stderr[-200:])
        if r.returncode != 0:
            print("   (tests fail -> not a realistic surviving change)")
    for i in ids:
        env = dict(os.environ, VERIF_REPO=d + "/r")
        r = subprocess.run(["/verif/bin/check", i, "--tier", tier], capture_output=True, text=True, env=env)
        lines = r.stdout.strip().splitlines()
        viol = [l for l in lines if l.startswith("VIOLATION")]
        summ = [l for l in lines if l.startswith(i + " tier")]
        print(f"MUTANT {label} check={i} exit={r.returncode} violations={len(viol)}", (viol[0][-90:] if viol else ""), "|", summ[0][:120] if summ else lines[-1:] )
finally:
    subprocess.run(["git", "-C", "/repo", "worktree", "remove", "--force", d + "/r"])
    shutil.rmtree(d, ignore_errors=True)
