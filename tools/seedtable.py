#!/venv/bin/python
"""tools/seedtable.py -> validation/seeded.md : one row per kept seeded change (from seeded/*/meta.json)."""
import glob, json, os

HERE = os.path.dirname(os.path.dirname(os.path.abspath(__file__)))
rows = []
for d in sorted(glob.glob(os.path.join(HERE, "seeded", "*", "meta.json"))):
    m = json.load(open(d))
    name = os.path.basename(os.path.dirname(d))
    title = ""
    try:
        title = open(os.path.join(os.path.dirname(d), "notes.md")).readline().strip().lstrip("# ").strip()
    except OSError:
        pass
    caught = []
    missed = []
    for k, v in sorted((m.get("checks") or {}).items()):
        (caught if v.get("exit") == 1 and v.get("violations", 0) > 0 else missed).append((k, v))
    hist = m.get("history") or []
    rows.append((name, title, caught, missed, hist))
out = ["# Seeded changes (written by independent sub-agents) and the checks that report them", "",
       "Each change keeps the 235 pinned tests green and fails its own demonstration (`demo.py`); see `seeded/<id>/meta.json`.",
       "`first report` is the first VIOLATION line of the named check run with `VERIF_REPO=<patched worktree>`.", "",
       "| id | change | reported by (tier: first report) | not reported by | strengthening it prompted |", "|---|---|---|---|---|"]
for name, title, caught, missed, hist in rows:
    c = "; ".join(f"{k} — {v['first'][:90]}" for k, v in caught) or "—"
    mi = ", ".join(k for k, v in missed) or "—"
    out.append(f"| {name} | {title[:140]} | {c} | {mi} | {'; '.join(hist) or '—'} |")
open(os.path.join(HERE, "validation", "seeded.md"), "w").write("\n".join(out) + "\n")
print(len(rows), "rows")
