#!/venv/bin/python
"""tools/seedprompt.py <root dir, e.g. /tmp/seed3>
Writes <root>/<ID>.property.txt and <root>/<ID>.prompt.txt for C01..C20 (the text a sub-agent of the seeded-change
campaign gets: one property + how to work in its own scratch worktree <root>/<ID>; nothing about /verif), and creates
the worktrees.  Ideas already kept under /verif/seeded are listed as 'do not repeat' by their one-line titles only."""
import glob, json, os, subprocess, sys

HERE = os.path.dirname(os.path.dirname(os.path.abspath(__file__)))
root = sys.argv[1]
os.makedirs(root, exist_ok=True)
ideas = []
for d in sorted(glob.glob(os.path.join(HERE, "seeded", "*", "notes.md"))):
    ideas.append(open(d).readline().strip().lstrip("# ").strip()[:170])
for line in open(os.path.join(HERE, "properties.jsonl")):
    p = json.loads(line)
    pid = p["id"]
    wt = f"{root}/{pid}"
    prop = f"Property {pid}: {p['title']}\n\nStatement: {p['statement']}\n\nQuantified over: {p['quantifier']['text']}\n\nCode the property is anchored in: {', '.join(p['anchors']['files'])}\n"
    open(f"{root}/{pid}.property.txt", "w").write(prop)
    text = f"""You are helping to evaluate a verification harness for the open-source project googlefonts/nanoemoji (a Python compiler that turns SVGs into colour fonts: COLRv0/v1, OT-SVG, CBDT, sbix; built on fontTools, picosvg, ufo2ft, ninja).

You work ONLY inside your own scratch git worktree of the repository: {wt}  (never touch /repo or /verif, never read anything under /verif).

The property you are attacking is in {root}/{pid}.property.txt - read it first:

{prop}

YOUR TASK: produce TWO different, realistic source changes ("seeded defects") to nanoemoji (files under {wt}/src/nanoemoji/) that each BREAK this property while the code still imports/compiles and the project's existing test suite still passes. Each change should look like a plausible mistake or well-meant refactoring a maintainer could make (a few lines), NOT an obvious sabotage, and it should need something specific to manifest - an unusual input, a particular combination of options, a multi-step sequence of operations, a particular schedule/crash point, or two cooperating sites that each look fine alone - rather than breaking every ordinary build at once. The two changes must be in different mechanisms (different functions / different reasons).

How to run things in this sandbox (no network):
* Python: /venv/bin/python ; always set PYTHONPATH={wt}/src so that YOUR worktree's nanoemoji is imported (the installed package otherwise points at /repo).
* Existing tests: cd {wt} && PYTHONPATH={wt}/src /venv/bin/python -m pytest -q -p no:cacheprovider --timeout=900 -q 2>&1 | tail -5
  At baseline 235 tests pass and 45 fail (the 45 need the command-line tools on PATH and are expected to fail - ignore them). With your change the same 235 must still pass: compare the set of passing tests before and after (e.g. with --junitxml or `-rA`), the set must not shrink.
* Command-line tools (nanoemoji, maximum_color, picosvg, ninja, resvg, pngquant) live in /venv/bin: run them as  PATH=/venv/bin:$PATH PYTHONPATH={wt}/src nanoemoji --color_format glyf_colr_1 --build_dir <dir> a.svg b.svg  (source files are named like emoji_u1f600.svg or emoji_u1f601_200d_1f3fb.svg; output is <dir>/Font.ttf). An in-process build is also possible through nanoemoji.write_font._generate_color_font(config, inputs) - see tests/test_helper.py for how the tests do it.
* Write scratch files only under {wt} (e.g. {wt}/.work, remove it at the end). Never run `git stash` (the worktree shares its git directory with the main repository); use `git -C {wt} checkout -- src` and `git diff` only.

DELIVERABLES - create the directory {wt}/seeded/ and in it, for k = 1, 2:
* change<k>.diff : the change as a unified diff produced by `git -C {wt} diff` (only files under src/nanoemoji/).  Produce each diff against the ORIGINAL tree (revert the first change before making the second: `git -C {wt} checkout -- src`).
* demo<k>.py : a small stand-alone program (run as `PYTHONPATH=<tree>/src /venv/bin/python demo<k>.py`, may also invoke the CLI with PATH=/venv/bin:$PATH) that exits 0 on the ORIGINAL tree and exits non-zero (with a short message saying what is wrong) on the tree with change<k> applied. It must check the PROPERTY's observable (what the font paints / contains / which exit status etc.), not the source text. It must take the tree to use from the environment variable NANOEMOJI_TREE (default {wt}) if it needs paths.
* notes<k>.md : first line `# <one-line title of the change>`, then 5-10 lines: what the change does, why it looks innocent, what exactly is needed for it to manifest (input / options / sequence / schedule), and the commands you ran with their results (tests before/after, demo on original, demo on changed tree).
Leave the worktree itself clean at the end (`git -C {wt} checkout -- src`), with only the untracked seeded/ directory added.

Before you finish, VERIFY yourself for each change: (1) apply diff, run the test suite: same 235 pass; (2) demo exits non-zero with the diff applied; (3) revert, demo exits 0. Report in your final message, per change: one-line summary, files touched, what it needs to manifest, and the three verification results. If you cannot find a second distinct change, deliver one good one rather than a weak second.

IMPORTANT - ideas that were ALREADY used in earlier rounds (for this and neighbouring properties). Do NOT repeat them or close variants; find different mechanisms, ideally in other functions/files named in the property's anchor list, and prefer ones that need an unusual input class, option combination, multi-step history or schedule to manifest:
""" + "\n".join("- " + x for x in ideas) + "\n"
    open(f"{root}/{pid}.prompt.txt", "w").write(text)
    if not os.path.exists(wt):
        subprocess.run(["git", "-C", "/repo", "worktree", "add", "-q", "--detach", wt], check=True)
print("prompts and worktrees under", root)
