#!/venv/bin/python
"""tools/seedrun.py <seeded-dir-name> [check ids...] [--tier quick|thorough]
Re-runs checks against one kept seeded change (/verif/seeded/<name>/patch.diff applied to a scratch worktree of /repo
HEAD, removed afterwards) and records the outcome in its meta.json under "checks"."""
import json, os, shutil, subprocess, sys, tempfile, time

HERE = os.path.dirname(os.path.dirname(os.path.abspath(__file__)))
args = sys.argv[1:]
tier = "quick"
if "--tier" in args:
    i = args.index("--tier")
    tier = args[i + 1]
    del args[i : i + 2]
seed = None
if "--seed" in args:
    i = args.index("--seed")
    seed = args[i + 1]
    del args[i : i + 2]
name = args[0]
ids = args[1:]
if not ids:
    # default: the checks that reported it before (or the property's own check)
    try:
        prev = json.load(open(os.path.join(HERE, "seeded", name, "meta.json"))).get("checks", {})
        ids = sorted({k.split(":")[0] for k, v in prev.items() if v.get("exit") == 1 and v.get("violations", 0) > 0})
    except OSError:
        ids = []
    ids = ids or [name.split("-")[0]]
dest = os.path.join(HERE, "seeded", name)
d = tempfile.mkdtemp(prefix="seedrun-")
try:
    subprocess.run(["git", "-C", "/repo", "worktree", "add", "-q", "--detach", d + "/r"], check=True, capture_output=True)
    ap = subprocess.run(["git", "-C", d + "/r", "apply", dest + "/patch.diff"], capture_output=True, text=True)
    if ap.returncode:
        print("apply failed", ap.stderr)
        sys.exit(2)
    meta = json.load(open(dest + "/meta.json"))
    for c in ids:
        t0 = time.time()
        r = subprocess.run([os.path.join(HERE, "bin/check"), c, "--tier", tier], capture_output=True, text=True, env=dict(os.environ, VERIF_REPO=d + "/r", **({"VERIF_SEED": seed} if seed else {})))
        v = [l for l in r.stdout.splitlines() if l.startswith("VIOLATION")]
        res = {"exit": r.returncode, "violations": len(v), "first": (v[0].split("#", 1)[-1].strip()[:160] if v else ""), "wall_s": round(time.time() - t0, 1)}
        meta.setdefault("checks", {})[f"{c}:{tier}" + (f":seed{seed}" if seed else "")] = res
        print(name, c, tier, res)
    json.dump(meta, open(dest + "/meta.json", "w"), indent=1)
finally:
    subprocess.run(["git", "-C", "/repo", "worktree", "remove", "--force", d + "/r"], capture_output=True)
    shutil.rmtree(d, ignore_errors=True)
