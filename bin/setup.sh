#!/bin/sh
# Idempotent offline install of the harness' third-party deps beside the repo's interpreter.
set -e
HERE="$(cd "$(dirname "$0")/.." && pwd)"
DEPS="$HERE/.deps"
if [ ! -f "$DEPS/.ok" ]; then
  rm -rf "$DEPS"; mkdir -p "$DEPS"
  PIP_NO_INDEX=1 /venv/bin/pip install -q --no-index --find-links /opt/veriftools/wheels \
     --target "$DEPS" numpy icontract deal jsonschema >/dev/null 2>&1
  touch "$DEPS/.ok"
fi
echo "setup ok: $DEPS"
