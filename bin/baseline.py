#!/venv/bin/python
"""Run the repository's pinned test suite (guard off) and compare with BASELINE.json's stable_pass."""
import json, os, subprocess, sys, tempfile
import xml.etree.ElementTree as ET

repo = sys.argv[1] if len(sys.argv) > 1 else "/repo"
base = json.load(open("/root/.vp/BASELINE.json"))
want = set(base["stable_pass"])
with tempfile.TemporaryDirectory() as d:
    x = os.path.join(d, "j.xml")
    env = {k: v for k, v in os.environ.items() if k not in ("NANOEMOJI_VERIF", "PYTHONPATH")}
    if repo != "/repo":
        env["PYTHONPATH"] = os.path.join(repo, "src")
    subprocess.run(["/venv/bin/python", "-m", "pytest", "-q", "-p", "no:cacheprovider", "--timeout=900", "--continue-on-collection-errors", f"--junitxml={x}"], cwd=repo, env=env, stdout=subprocess.DEVNULL, stderr=subprocess.DEVNULL)
    ok = set()
    for tc in ET.parse(x).getroot().iter("testcase"):
        if not any(c.tag in ("failure", "error", "skipped") for c in tc):
            ok.add(f"{tc.get('classname')}::{tc.get('name')}")
missing = sorted(want - ok)
print(f"baseline: {len(want & ok)}/{len(want)} stable tests pass; {len(ok - want)} additional passes")
for m in missing[:20]:
    print("  FAILS:", m)
sys.exit(1 if missing else 0)
