"""In-process lane: the same functions the ninja steps call, without the process boundary.

picosvg CLI      -> SVG.fromstring(raw).topicosvg() [+ clip_to_viewbox] .tostring(pretty_print=True)
write_glyphmap   -> nanoemoji.write_glyphmap._glyphmappings(file names)
write_fea        -> nanoemoji.features.generate_fea(sequences)
write_font       -> write_font._inputs-equivalent + _generate_color_font + save + reload(lazy=False)
"""
import io
import os
import tempfile
from pathlib import Path

_INIT = False


def init():
    global _INIT
    if _INIT:
        return
    from absl import flags, logging

    try:
        flags.FLAGS(["vf"])
    except Exception:
        pass
    logging.set_verbosity(logging.ERROR)
    import logging as pylog

    pylog.getLogger("fontTools").setLevel(pylog.ERROR)
    pylog.getLogger("ufo2ft").setLevel(pylog.ERROR)
    _INIT = True


def import_step(modname):
    """Import a ninja-step module in this process: several steps define the same absl flag
    (--output_file), which only works in separate processes; duplicates are ignored here."""
    import importlib
    import sys

    if modname in sys.modules:
        return sys.modules[modname]
    from absl import flags

    saved = {}
    for fn in ("DEFINE_string", "DEFINE_bool", "DEFINE_integer", "DEFINE_float", "DEFINE_enum", "DEFINE_list", "DEFINE_boolean"):
        orig = getattr(flags, fn)
        saved[fn] = orig

        def wrap(orig):
            def f(*a, **k):
                try:
                    return orig(*a, **k)
                except flags.DuplicateFlagError:
                    return None

            return f

        setattr(flags, fn, wrap(orig))
    try:
        return importlib.import_module(modname)
    finally:
        for fn, orig in saved.items():
            setattr(flags, fn, orig)


def picosvg_normal(raw_svg, clip_to_viewbox=True):
    """What the `picosvg` build step leaves on disk for this source."""
    init()
    from picosvg.svg import SVG

    svg = SVG.fromstring(raw_svg).topicosvg()
    if clip_to_viewbox:
        svg.clip_to_viewbox(inplace=True)
    return svg.tostring(pretty_print=True)


def filename_for(codepoints, scheme=0):
    if scheme == 0:
        return "emoji_u" + "_".join("%04x" % c for c in codepoints) + ".svg"
    if scheme == 1:
        return "-".join("%04x" % c for c in codepoints) + ".svg"
    if scheme == 2:
        return "emoji_u" + "_".join("%04X" % c for c in codepoints) + ".svg"
    if scheme == 4:
        return "emoji_u" + "_".join("%08x" % c for c in codepoints) + ".svg"  # zero-padded as %08x / \\U0001f600 spell it
    if scheme == 5:
        return "u" + "_".join("%06X" % c for c in codepoints) + ".svg"
    return "-".join("%X" % c for c in codepoints) + ".svg"


def make_config(overrides=None, fea_text=None, tmpdir=None):
    init()
    from nanoemoji import config as cfgmod

    cfg = cfgmod.load(None, additional_srcs=(Path("/nonexistent/a.svg"),))
    ov = dict(overrides or {})
    if "transform" in ov and not hasattr(ov["transform"], "almost_equals"):
        from picosvg.svg_transform import Affine2D

        t = ov["transform"]
        ov["transform"] = Affine2D.fromstring(t) if isinstance(t, str) else Affine2D(*t)
    if "output_file" not in ov:
        fmt = ov.get("color_format", cfg.color_format)
        ov["output_file"] = "Font.otf" if fmt.startswith("cff") else "Font.ttf"
    cfg = cfg._replace(**ov)
    if fea_text is not None:
        f = tempfile.NamedTemporaryFile("w", suffix=".fea", delete=False, dir=tmpdir)
        f.write(fea_text)
        f.close()
        cfg = cfg._replace(fea_file=f.name)
    else:
        cfg = cfg._replace(fea_file="")
    return cfg.validate()


class Built:
    def __init__(self, cfg, inputs, picosvgs, font, data, ufo):
        self.cfg = cfg
        self.inputs = inputs
        self.picosvgs = picosvgs  # picosvg-normal text per input (None for raw / bitmap)
        self.font = font
        self.data = data
        self.ufo = ufo


def build(sources, overrides=None, use_filenames=False, pngs=None, normalised=None):
    """sources: [{'svg': raw text, 'codepoints': (..), 'name': optional file name}].

    Returns Built.  Exceptions of the code under test propagate to the caller."""
    init()
    from fontTools.ttLib import TTFont
    from nanoemoji import features, write_font
    from nanoemoji.glyph import glyph_name
    from nanoemoji.png import PNG
    from picosvg.svg import SVG

    ov = dict(overrides or {})
    probe = make_config(ov)
    seqs = sorted({tuple(s["codepoints"]) for s in sources if len(s["codepoints"]) > 1})
    fea = features.generate_fea(seqs)
    cfg = make_config(ov, fea_text=fea)
    try:
        inputs, picos = [], []
        if use_filenames:
            _glyphmappings = import_step("nanoemoji.write_glyphmap")._glyphmappings

            names = [s.get("name") or filename_for(s["codepoints"]) for s in sources if s["codepoints"]]
            maps = list(_glyphmappings(names))
            by_name = {str(m.svg_file): m for m in maps}
        for i, s in enumerate(sources):
            cps = tuple(s["codepoints"])
            gname = glyph_name(cps) if cps else s.get("glyph_name", ".notdef")
            fname = s.get("name") or filename_for(cps)
            if use_filenames and cps:
                m = by_name[fname]
                cps, gname = m.codepoints, m.glyph_name
            if cps and s.get("glyph_name"):
                gname = s["glyph_name"]  # a custom glyph map may name glyphs freely (single-codepoint sources only: F18)
            svg = None
            pico_text = None
            bitmap = None
            if cfg.has_svgs:
                if cfg.has_picosvgs:
                    pico_text = normalised[i] if normalised else picosvg_normal(s["svg"], cfg.clip_to_viewbox)
                    svg = SVG.fromstring(pico_text)
                else:
                    svg = SVG.fromstring(s["svg"])
            if cfg.has_bitmaps:
                bitmap = PNG(pngs[i])
            picos.append(pico_text)
            inputs.append(write_font.InputGlyph(Path(fname) if cfg.has_svgs else None, Path(fname).with_suffix(".png") if cfg.has_bitmaps else None, cps, gname, svg, bitmap))
        ufo, tt = write_font._generate_color_font(cfg, inputs)
        b = io.BytesIO()
        tt.save(b)
        data = b.getvalue()
        font = TTFont(io.BytesIO(data), lazy=False)
        return Built(cfg, inputs, picos, font, data, ufo)
    finally:
        try:
            os.unlink(cfg.fea_file)
        except OSError:
            pass
