"""CLI lane: the real `nanoemoji` / `maximum_color` console scripts under ninja in a private environment,
instrumented through PATH shims (resvg, pngquant, ninja) and a sitecustomize module (driver, picosvg, every
python -m step): step start/end/fault events, schedule perturbation, fault injection."""
import hashlib
import json
import os
import subprocess
import sys
from pathlib import Path

from vf import common

HOOKS = common.VERIF / "vf" / "hooks"


def env_for(events=None, fault=None, driver_fault=None, delay_ms=None, delay_seed=0, ninja_j=None, hashseed="0", contracts=False, extra=None):
    env = {
        "PATH": f"{HOOKS / 'shims'}:/venv/bin:/usr/bin:/bin",
        "PYTHONPATH": os.pathsep.join([str(HOOKS / "site"), str(common.REPO / "src"), str(common.VERIF), str(common.DEPS)]),
        "SOURCE_DATE_EPOCH": "1600000000",
        "PYTHONHASHSEED": str(hashseed),
        "NANOEMOJI_VERIF": "1",
        "HOME": os.environ.get("HOME", "/root"),
        "LANG": "C.UTF-8",
        "LC_ALL": "C.UTF-8",
        "OMP_NUM_THREADS": "1",
        "OPENBLAS_NUM_THREADS": "1",
        "PIP_NO_INDEX": "1",
    }
    if events:
        env["VERIF_EVENTS"] = str(events)
    if fault:
        env["VERIF_FAULT"] = fault
    if driver_fault:
        env["VERIF_DRIVER_FAULT"] = driver_fault
    if delay_ms:
        env["VERIF_DELAY_MS"] = str(delay_ms)
        env["VERIF_DELAY_SEED"] = str(delay_seed)
    if ninja_j:
        env["VERIF_NINJA_J"] = str(ninja_j)
    if contracts:
        env["VERIF_CONTRACTS"] = "1"
    if extra:
        env.update(extra)
    return env


def run(tool, args, cwd, env, timeout=600, own_group=False):
    """-> (returncode, tail of combined output).  returncode None = watchdog."""
    cmd = [f"/venv/bin/{tool}"] + [str(a) for a in args]
    try:
        p = subprocess.run(cmd, cwd=str(cwd), env=env, stdout=subprocess.PIPE, stderr=subprocess.STDOUT, timeout=timeout, start_new_session=own_group)
        out = p.stdout.decode("utf-8", "replace")
        i = out.find("FAILED:")
        # the last line of every traceback (the exception itself): parallel steps may print thousands of characters
        # between a failing step's traceback and the end of the build
        import re as _re

        exc_lines = _re.findall(r"^(?:[A-Za-z_][\w.]*(?:Error|Exception)|struct\.error|AssertionError)\b[^\n]{0,400}", out, _re.M)[:12]
        tail_note = ("\nexception lines:\n" + "\n".join(exc_lines)) if exc_lines else ""
        if i >= 0 and len(out) - i > 4000:
            # keep the failing step's own traceback, not only the driver's
            j = out.find("Traceback", i)
            k = out.find("ninja: build stopped", i)
            out = out[i : i + 300] + "\n...\n" + out[max(i, (k if k > 0 else len(out)) - 2500) : (k if k > 0 else len(out))] + "\n...\n" + out[-600:]
        return p.returncode, out[-4000:] + tail_note
    except subprocess.TimeoutExpired as e:
        return None, "WATCHDOG " + (e.stdout or b"").decode("utf-8", "replace")[-2000:]


def nanoemoji(args, cwd, env, timeout=600):
    return run("nanoemoji", args, cwd, env, timeout)


def maximum_color(args, cwd, env, timeout=900):
    return run("maximum_color", args, cwd, env, timeout)


def events(path):
    out = []
    try:
        for line in open(path):
            try:
                out.append(json.loads(line))
            except Exception:
                pass
    except OSError:
        pass
    return out


def completion_order(evs):
    """tuple of step identifiers in the order their step_end events were logged"""
    ends = sorted((e for e in evs if e["kind"] == "step_end" and e["step"] not in ("nanoemoji", "maximum_color", "ninja")), key=lambda e: e["t"])
    return tuple(f"{e['step'].split('.')[-1]}:{os.path.basename(str(e.get('out') or ''))}" for e in ends)


def sha256(path):
    try:
        return hashlib.sha256(Path(path).read_bytes()).hexdigest()
    except OSError:
        return None


def write_sources(d, sources):
    """sources: [{'name': file name, 'svg': text}] -> list of paths"""
    d = Path(d)
    d.mkdir(parents=True, exist_ok=True)
    out = []
    for s in sources:
        p = d / s["name"]
        p.parent.mkdir(parents=True, exist_ok=True)
        p.write_text(s["svg"])
        out.append(p)
    return out


def toml_text(cfg, srcs=None, masters=None):
    """minimal config file: top-level keys + axis/master tables"""
    import toml

    d = dict(cfg)
    if masters is None:
        d.setdefault("axis", {"wght": {"name": "Weight", "default": 400}})
        d["master"] = {"regular": {"style_name": "Regular", "position": {"wght": 400}, "srcs": list(srcs or [])}}
    else:
        d.update(masters)
    return toml.dumps(d)
