"""Worker: runs the cases of one shard for one check, one JSON result line per case."""
import importlib
import json
import signal
import sys
import time
import traceback

from vf import common

common.ensure_deps()


class CaseTimeout(Exception):
    pass


def _alarm(signum, frame):
    raise CaseTimeout()


def run_one(mod, case):
    t0 = time.time()
    signal.signal(signal.SIGALRM, _alarm)
    signal.alarm(int(case.get("timeout", getattr(mod, "CASE_TIMEOUT", 300))))
    try:
        res = mod.run_case(case) or {}
    except CaseTimeout:
        res = {"error": "watchdog: case timeout"}
    except Exception:
        res = {"error": "harness exception: " + traceback.format_exc()[-3000:]}
    finally:
        signal.alarm(0)
    res["id"] = case["id"]
    res["wall"] = round(time.time() - t0, 3)
    return res


def main():
    check_id, casefile, outfile = sys.argv[1:4]
    mod = importlib.import_module("vf.checks." + check_id.lower())
    cases = json.load(open(casefile))
    if hasattr(mod, "worker_init"):
        mod.worker_init()
    with open(outfile, "a") as out:
        for case in cases:
            res = run_one(mod, case)
            out.write(json.dumps(res, default=str) + "\n")
            out.flush()
    if hasattr(mod, "worker_exit"):
        mod.worker_exit()


if __name__ == "__main__":
    main()
