"""Shared plumbing: paths, dependency bootstrap, seeds, evidence, findings, sharded runner.

Everything here runs under /venv/bin/python (the repository's interpreter).
"""
import hashlib
import json
import os
import random
import shutil
import subprocess
import sys
import tempfile
import time
from pathlib import Path

VERIF = Path(__file__).resolve().parent.parent
REPO = Path(os.environ.get("VERIF_REPO", "/repo")).resolve()
DEPS = VERIF / ".deps"
PY = "/venv/bin/python"
GUARD = "NANOEMOJI_VERIF"
NPROC = int(os.environ.get("VERIF_NPROC", "16"))


def ensure_deps():
    if not (DEPS / ".ok").exists():
        subprocess.run([str(VERIF / "bin" / "setup.sh")], check=True, stdout=subprocess.DEVNULL)
    for p in (str(DEPS), str(REPO / "src"), str(VERIF)):
        if p in sys.path:
            sys.path.remove(p)
    # repo first so VERIF_REPO scratch copies win over the editable install
    sys.path.insert(0, str(DEPS))
    sys.path.insert(0, str(VERIF))
    sys.path.insert(0, str(REPO / "src"))


def child_env(extra=None):
    env = dict(os.environ)
    env["PYTHONPATH"] = os.pathsep.join([str(REPO / "src"), str(VERIF), str(DEPS)])
    env.setdefault("PYTHONHASHSEED", "0")
    env["PATH"] = "/venv/bin:" + env.get("PATH", "/usr/bin:/bin")
    env["SOURCE_DATE_EPOCH"] = "1600000000"
    env["VERIF_REPO"] = str(REPO)
    env["PIP_NO_INDEX"] = "1"
    for k in ("OMP_NUM_THREADS", "OPENBLAS_NUM_THREADS", "MKL_NUM_THREADS"):
        env[k] = "1"  # 16 workers x BLAS thread pools only fight each other
    if extra:
        env.update(extra)
    return env


def out_dir(kind):
    """evidence/ and replay/ live in /verif only for runs against /repo itself; runs against a
    scratch copy (VERIF_REPO, mutation campaign) write under .mut/ so committed evidence is never clobbered."""
    if str(REPO) == "/repo":
        return VERIF / kind
    return VERIF / ".mut" / kind


def rng(*parts):
    return random.Random(":".join(str(p) for p in parts))


def seed():
    return int(os.environ.get("VERIF_SEED", "0"))


def sha(obj):
    if not isinstance(obj, (bytes, bytearray)):
        obj = json.dumps(obj, sort_keys=True, default=str).encode()
    return hashlib.sha256(obj).hexdigest()[:16]


def mkscratch(prefix="vf-"):
    base = os.environ.get("VERIF_SCRATCH") or tempfile.gettempdir()
    return Path(tempfile.mkdtemp(prefix=prefix, dir=base))


# ----------------------------------------------------------------------------------------
# known findings


def load_findings():
    out = []
    p = VERIF / "known_findings.jsonl"
    if p.exists():
        for line in p.read_text().splitlines():
            line = line.strip()
            if not line or line.startswith("#"):
                continue
            if line.startswith("fixed:"):
                continue  # fixed entries suppress nothing
            out.append(json.loads(line))
    return out


def known_mechanisms(prop):
    return {f["mechanism"]: f for f in load_findings() if f["property"] == prop and f.get("status", "open") == "open"}


# ----------------------------------------------------------------------------------------
# evidence


def write_evidence(prop, tier, seed_, level, coverage, wall, violations, assumptions):
    ev = {
        "property_id": prop,
        "tier": tier,
        "seed": seed_,
        "level": level,
        "coverage": coverage,
        "assumptions": assumptions,
        "wall_s": round(wall, 2),
        "violations": violations,
    }
    try:
        import jsonschema

        schema = json.load(open("/root/.vp/EVIDENCE.schema.json"))
        jsonschema.validate(ev, schema)
    except FileNotFoundError:
        pass
    d = out_dir("evidence")
    d.mkdir(parents=True, exist_ok=True)
    tmp = d / f".{prop}.json.tmp"
    tmp.write_text(json.dumps(ev, indent=1, sort_keys=True, default=str) + "\n")
    os.replace(tmp, d / f"{prop}.json")
    return ev


# ----------------------------------------------------------------------------------------
# sharded execution in subprocesses (not multiprocessing.Pool: it hangs on a dead child)


def run_sharded(check_id, cases, nproc=None, timeout=3000, extra_env=None):
    """Run `vf.worker` over `cases` (list of JSON-able dicts, each with 'id').

    Returns (results, lost): results is a list of per-case dicts; lost lists case ids for
    which no result came back (worker died on that case / watchdog) -> reported, never a verdict.
    A worker that dies loses only the case it was running: the rest of its shard is re-queued.
    """
    nproc = min(nproc or NPROC, max(1, len(cases)))
    scratch = mkscratch(f"vf-{check_id}-")
    deadline = time.time() + timeout
    results, lost = [], []
    try:
        pending = [cases[w::nproc] for w in range(nproc)]
        pending = [s for s in pending if s]
        gen = 0
        while pending and time.time() < deadline:
            procs = []
            for w, shard in enumerate(pending):
                cf = scratch / f"cases{gen}_{w}.json"
                of = scratch / f"out{gen}_{w}.jsonl"
                ef = scratch / f"err{gen}_{w}.txt"
                cf.write_text(json.dumps(shard))
                env = child_env(extra_env)
                env["VERIF_SCRATCH"] = str(scratch)
                p = subprocess.Popen(
                    [PY, "-m", "vf.worker", check_id, str(cf), str(of)],
                    env=env,
                    cwd=str(VERIF),
                    stdout=subprocess.DEVNULL,
                    stderr=open(ef, "w"),
                )
                procs.append((p, shard, of, ef))
            for p, shard, of, ef in procs:
                try:
                    p.wait(timeout=max(1, deadline - time.time()))
                except subprocess.TimeoutExpired:
                    p.kill()
                    p.wait()
            pending = []
            for p, shard, of, ef in procs:
                got = {}
                if of.exists():
                    for line in of.read_text().splitlines():
                        try:
                            r = json.loads(line)
                            got[r["id"]] = r
                        except Exception:
                            pass
                missing = [c for c in shard if c["id"] not in got]
                results.extend(got.values())
                if missing:
                    tail = ""
                    try:
                        tail = ef.read_text()[-1500:]
                    except Exception:
                        pass
                    lost.append({"id": missing[0]["id"], "stderr_tail": tail})
                    if missing[1:]:
                        pending.append(missing[1:])
            gen += 1
        for shard in pending:
            lost.extend({"id": c["id"], "stderr_tail": "global watchdog"} for c in shard)
        order = {c["id"]: i for i, c in enumerate(cases)}
        results.sort(key=lambda r: order.get(r["id"], 0))
        return results, lost
    finally:
        shutil.rmtree(scratch, ignore_errors=True)
