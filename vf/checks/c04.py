"""C04 — Every source is reachable from its codepoints, and only from them."""
import io
import re
import traceback

from vf import common
from vf.gen import svggen

ID = "C04"
LEVEL = "exploration"
RULE = (
    "case = one font in one of the 13 colour formats from 2-14 identity-stamped sources (unique colour + unique rect size, "
    "PNGs for bitmap formats) whose codepoint sequences come from the hostile sequence generator (length 1..14, ZWJ/VS16/"
    "skin-tone/flag/keycap shapes, prefixes and shared components, ASCII letters, names > 63 chars, 'g'+X next to X), file "
    "names in both schemes through the real write_glyphmap code, keep_glyph_names on/off, viewBox aspect 1:4..4:1, widths.  "
    "Oracle: mini-shaper(sequence) ends in one glyph whose recovered identity equals the source's; distinct sources -> distinct "
    "glyphs; near-miss spellings of a source that are not sources (VS16 / ZWJ dropped or added, prefix, suffix, reversal) do not end on a source's glyph; gid 0 is .notdef with an outline; U+0020 and every sequence-only codepoint map to blank glyphs; advance rule.  "
    "Non-trivial = font with >= 1 multi-codepoint sequence; distinct = hash of (sequences, config)."
)
ASSUMPTIONS = ["identity is recovered with the COLR / SVG evaluators, outline bounds or stored PNG bytes", "mini-shaper implements cmap + ccmp ligature substitution only"]
N = {"quick": 1950, "thorough": 13000}
ALL_FORMATS = ["glyf", "glyf_colr_0", "glyf_colr_1", "cff_colr_0", "cff_colr_1", "cff2_colr_0", "cff2_colr_1", "picosvg", "picosvgz", "untouchedsvg", "untouchedsvgz", "cbdt", "sbix"]
ASPECTS = [(1, 4), (1, 2), (1, 1), (1, 1), (2, 1), (4, 1), (13, 10), (9, 10), (3, 4)]


def plan(tier, seed):
    return [{"id": f"{seed}-{i}", "i": i} for i in range(N[tier])]


def colour_of(i):
    return ((37 * i + 11) % 256, (91 * i + 50) % 256, (53 * i + 7) % 256)


def gen_case(case):
    r = common.rng(ID, case["seed"], case["i"])
    fmt = ALL_FORMATS[case["i"] % len(ALL_FORMATS)] if r.random() < 0.7 else r.choice(ALL_FORMATS)
    cfg = svggen.font_config(r, (fmt,), user_transform=False, small_upem=False)
    cfg["reuse_tolerance"] = r.choice([0.1, 0.1, -1])
    if fmt in ("cbdt", "sbix"):
        cfg["bitmap_resolution"] = r.choice([32, 64, 128, 100])
    if r.random() < 0.35:
        # a configured width below what tall-ish artwork needs (w < h, width < em*w/h) as well as above it
        em = cfg["ascender"] - cfg["descender"]
        cfg["width"] = int(em * r.choice([0.1, 0.3, 0.5, 0.7, 0.85]))
    n = r.randint(2, 14)
    seqs = svggen.sequences(r, n)
    # qualified and unqualified spellings of one emoji as two distinct sources (follower above and below U+FE0F)
    if r.random() < 0.3:
        b = r.choice([0x261D, 0x270C, 0x1F3F3, r.randint(0x1F300, 0x1FAFF)])
        tail = r.choice([(r.choice(svggen.SKIN),), (svggen.ZWJ, r.randint(0x1F300, 0x1FAFF)), (0x20E3,), (0x10FFF0,)])
        pair = [(b, svggen.VS16) + tail, (b,) + tail]
        if r.random() < 0.4:
            pair = pair[:1] if r.random() < 0.5 else pair[1:]
        for q in pair:
            if q not in seqs:
                seqs.append(q)
    # hostile: 'g' + X next to X (name collision candidates), a coloured glyph for a component of a sequence
    if r.random() < 0.25 and seqs:
        base = r.choice(seqs)
        if (0x67,) + tuple(base) not in seqs:
            seqs.append((0x67,) + tuple(base))
    if r.random() < 0.3:
        multi = [s for s in seqs if len(s) > 1]
        if multi:
            comp = (r.choice(r.choice(multi)),)
            if comp not in seqs and comp[0] > 0x20:
                seqs.append(comp)
    scheme = r.randint(0, 3)
    sources = []
    for i, q in enumerate(seqs):
        aw, ah = r.choice(ASPECTS)
        H = r.choice([24, 100, 128])
        W = H * aw / ah
        w, h = W * (0.25 + 0.04 * (i % 12)), H * (0.3 + 0.03 * (i % 15))
        col = colour_of(i)
        svg = f'<svg xmlns="http://www.w3.org/2000/svg" viewBox="0 0 {W:g} {H:g}"><rect x="{W*0.1:g}" y="{H*0.15:g}" width="{w:g}" height="{h:g}" fill="#{col[0]:02x}{col[1]:02x}{col[2]:02x}"/></svg>'
        sources.append({"svg": svg, "codepoints": list(q), "name": None, "aspect": [aw, ah], "colour": list(col), "scheme": scheme})
    return sources, cfg


def make_png(size, colour, i):
    from PIL import Image

    im = Image.new("RGBA", size, tuple(colour) + (255,))
    im.putpixel((0, 0), (i % 256, (i // 256) % 256, 7, 255))
    b = io.BytesIO()
    im.save(b, format="PNG")
    return b.getvalue()


def is_blank(font, name, ev):
    """no outline, no colour record, no SVG document, no bitmap"""
    from fontTools.pens.boundsPen import ControlBoundsPen

    gs = font.getGlyphSet()
    pen = ControlBoundsPen(gs)
    gs[name].draw(pen)
    if pen.bounds is not None:
        return "has an outline"
    if ev is not None and ev.has_glyph(name):
        return "has a colour record"
    gid = font.getGlyphID(name)
    if "SVG " in font:
        from vf.checks.render_common import svg_docs

        if any(d[1] <= gid <= d[2] for d in svg_docs(font)):
            return "is covered by an SVG document"
    if "CBDT" in font and any(name in sd for sd in font["CBDT"].strikeData):
        return "has a CBDT bitmap"
    if "sbix" in font and any(name in st.glyphs and st.glyphs[name].imageData for st in font["sbix"].strikes.values()):
        return "has an sbix bitmap"
    return ""


def run_case(case):
    from vf.checks import render_common as rc
    from vf.drive import inproc
    from vf.hooks import contracts
    from vf.oracle import colreval, geom, svgeval

    sources, cfg = gen_case(case)
    fmt = cfg["color_format"]
    res = {"counters": {}, "maxes": {}, "violations": [], "tags": [fmt, "names" if cfg["keep_glyph_names"] else "nonames"]}
    c = res["counters"]
    for s in sources:
        s["name"] = inproc.filename_for(tuple(s["codepoints"]), s["scheme"])
    pngs = None
    if fmt in ("cbdt", "sbix"):
        res_px = cfg["bitmap_resolution"]
        pngs = [make_png((max(1, round(res_px * s["aspect"][0] / s["aspect"][1])), res_px), s["colour"], i) for i, s in enumerate(sources)]
        if fmt == "cbdt" and any(round(res_px * s["aspect"][0] / s["aspect"][1]) > 255 for s in sources):
            c["skipped_cbdt_too_wide"] = 1  # C14/C17 own the size-limit claims
            return res
    contracts.install()
    contracts.reset()
    try:
        built = inproc.build(sources, cfg, use_filenames=True, pngs=pngs)
    except Exception as e:
        if rc.is_overflow_refusal(e):
            c["build_refused_overflow"] = 1
            return res
        res["violations"].append({"what": f"build raised {type(e).__name__}: {str(e)[:300]}", "trace": traceback.format_exc()[-1500:], "config": cfg, "sequences": [s["codepoints"] for s in sources]})
        return res
    font = built.font
    order = font.getGlyphOrder()
    ev = colreval.Evaluator(font) if "COLR" in font else None
    gs = font.getGlyphSet()
    cmap = font.getBestCmap()
    seqlist = [tuple(s["codepoints"]) for s in sources]
    ctx = {"config": cfg, "sequences": [list(q) for q in seqlist]}

    # the real code recovered the sequences from the file names
    for s, inp in zip(sources, built.inputs):
        if tuple(inp.codepoints) != tuple(s["codepoints"]):
            res["violations"].append(dict(ctx, what="codepoints recovered from the file name differ", file=s["name"], got=list(inp.codepoints), want=s["codepoints"]))
    # gid 0, space
    if order[0] != ".notdef":
        res["violations"].append(dict(ctx, what=f"glyph 0 is {order[0]!r}, not .notdef"))
    elif geom.bbox(geom.flatten_glyph(gs, ".notdef")) is None:
        res["violations"].append(dict(ctx, what=".notdef has no outline"))
    if 0x20 not in cmap:
        res["violations"].append(dict(ctx, what="U+0020 is not mapped"))
    elif (0x20,) not in seqlist:
        why = is_blank(font, cmap[0x20], ev)
        if why:
            res["violations"].append(dict(ctx, what=f"the space glyph {why}"))
    # sequence-only codepoints -> blank glyphs
    singles = {q[0] for q in seqlist if len(q) == 1}
    for cp in sorted({cp for q in seqlist if len(q) > 1 for cp in q} - singles):
        c["sequence_only_codepoints"] = c.get("sequence_only_codepoints", 0) + 1
        if cp not in cmap:
            res["violations"].append(dict(ctx, what=f"codepoint U+{cp:04X} occurs only inside sequences but has no glyph"))
            continue
        why = is_blank(font, cmap[cp], ev)
        if why:
            res["violations"].append(dict(ctx, what=f"glyph for sequence-only codepoint U+{cp:04X} {why}"))
    # every source: reach, identity, advance
    reached_by = {}
    em = built.cfg.ascender - built.cfg.descender
    for i, (s, inp) in enumerate(zip(sources, built.inputs)):
        q = tuple(s["codepoints"])
        got = rc.reach(font, q)
        c["sources"] = c.get("sources", 0) + 1
        if len(q) > 1:
            c["multi_codepoint_sources"] = c.get("multi_codepoint_sources", 0) + 1
        if len(got) != 1:
            res["violations"].append(dict(ctx, what="sequence does not shape to exactly one glyph", sequence=list(q), reached=got))
            continue
        name = got[0]
        if name in reached_by:
            res["violations"].append(dict(ctx, what="two distinct sources reach the same glyph", glyph=name, a=list(reached_by[name]), b=list(q)))
        reached_by[name] = q
        # advance
        aw, ah = s["aspect"]
        vb = (0, 0, float(aw), float(ah))
        if pngs is not None:  # the "viewBox" of a bitmap source is its pixel size
            vb = (0, 0, float(max(1, round(res_px * aw / ah))), float(res_px))
        adv = font["hmtx"][name][0]
        if adv not in rc.expected_advances(built.cfg, vb):
            res["violations"].append(dict(ctx, what="advance differs from max(width, round(em*w/h))", glyph=name, advance=adv, expected=sorted(rc.expected_advances(built.cfg, vb)), aspect=[aw, ah]))
        # identity
        col = tuple(s["colour"])
        ident = None
        try:
            if fmt in ("cbdt", "sbix"):
                if fmt == "cbdt":
                    data = [sd[name].imageData for sd in font["CBDT"].strikeData if name in sd]
                else:
                    data = [st.glyphs[name].imageData for st in font["sbix"].strikes.values() if name in st.glyphs and st.glyphs[name].imageData]
                ident = "ok" if (len(data) == 1 and bytes(data[0]) == pngs[i]) else f"{len(data)} bitmaps, bytes equal: {[bytes(d) == pngs[i] for d in data]}"
            elif fmt == "glyf":
                src_vb = svgeval.view_box(s["svg"])
                A = svgeval.A_ref(src_vb, built.cfg.ascender, built.cfg.descender, adv)
                ref = svgeval.display_list(built.picosvgs[i], A)
                rb = geom.bbox(ref[0].contours)
                gb = geom.bbox(geom.flatten_glyph(gs, name))
                ident = "ok" if gb is not None and max(abs(a - b) for a, b in zip(rb, gb)) <= 2.0 + 0.002 * built.cfg.upem else f"outline bounds {gb} vs source {rb}"
            elif "colr" in fmt:
                layers = ev.display_list(name) if ev.has_glyph(name) else []
                cols = [l.paint.color[1] for l in layers if l.paint.kind == "solid"]
                ident = "ok" if cols == [col] else f"layer colours {cols} vs {col}"
            elif fmt.startswith("picosvg"):
                layers, _ = rc.svg_glyph_layers(font, font.getGlyphID(name), [], {})
                cols = [l.paint.color[1] for l in (layers or []) if l.paint.kind == "solid"]
                ident = "ok" if cols == [col] else f"document colours {cols} vs {col}"
            else:
                gid = font.getGlyphID(name)
                docs = [d for d in rc.svg_docs(font) if d[1] <= gid <= d[2]]
                fills = re.findall(r'fill="#([0-9a-fA-F]{6})"', docs[0][0]) if len(docs) == 1 else None
                want = "%02x%02x%02x" % col
                ident = "ok" if fills is not None and [f.lower() for f in fills] == [want] and f'id="glyph{gid}"' in docs[0][0] else f"documents {len(docs)}, fills {fills} vs {want}"
        except Exception as e:
            ident = f"identity could not be read: {type(e).__name__}: {e}"
        if ident != "ok":
            res["violations"].append(dict(ctx, what="glyph reached from the codepoints does not carry this source's artwork: " + ident, glyph=name, sequence=list(q)))
    # "... and only from them": near-miss spellings that are not sources must not end on a source's glyph
    srcset = set(seqlist)
    probes = set()
    for q in seqlist:
        if len(q) < 2:
            continue
        probes.add(tuple(cp for cp in q if cp != svggen.VS16))
        probes.add(tuple(cp for cp in q if cp != svggen.ZWJ))
        probes.add(q[:1] + (svggen.VS16,) + q[1:])
        probes.add(q + (svggen.VS16,))
        probes.add(q[:-1])
        probes.add(q[1:])
        probes.add(tuple(reversed(q)))
    for p in sorted(probes):
        if not p or p in srcset or any(cp not in cmap for cp in p):
            continue
        c["non_source_probes"] = c.get("non_source_probes", 0) + 1
        got = rc.reach(font, p)
        if len(got) == 1 and got[0] in reached_by:
            res["violations"].append(dict(ctx, what="a sequence that is not a source reaches a source's glyph", probe=list(p), glyph=got[0], source=list(reached_by[got[0]])))
    for v in contracts.violations():
        res["violations"].append(v)
    c.update({k: v for k, v in contracts.counters().items() if k.startswith(("H6", "H8"))})
    coll = contracts.LOG.get("name_collisions") or []
    res["nontrivial"] = any(len(q) > 1 for q in seqlist)
    res["key"] = common.sha([seqlist, cfg])
    if case["i"] < 2:
        res["sample"] = {"config": cfg, "sequences": [["U+%04X" % cp for cp in q] for q in seqlist], "files": [s["name"] for s in sources], "glyph_order": order[:12]}
    return res


def finish(agg):
    c = agg["counters"]
    inc = []
    for k in ("multi_codepoint_sources", "sequence_only_codepoints", "non_source_probes"):
        if c.get(k, 0) == 0:
            inc.append(f"deciding monitor/branch never reached: {k}")
    for f in ALL_FORMATS:
        if agg["tags"].get(f, 0) == 0:
            inc.append(f"format never built: {f}")
    return {"inconclusive": inc}
