"""C15 — The palette honours explicit indices and resolves every colour."""
import itertools
import traceback

from vf import common

ID = "C15"
LEVEL = "exploration"
RULE = (
    "(1) function level, exhaustive: uniq_sort_cpal_colors on every set of <= 6 colours over 3 RGBA values x palette index in "
    "{None,0..5} (82160 sets), each in 3 input orders, judged by the spec predicate (indexed colour at its index, unindexed "
    "colours ascending in the lowest free slots, gaps black, conflict -> ValueError, never empty, order independent).  "
    "(2) font level: generated COLRv0/COLRv1 fonts whose fills and gradient stops use indexed / unindexed / currentColor "
    "colours with opacities; CPAL and the palette indices in COLR are read back from the binary.  Non-trivial = a set with both "
    "indexed and unindexed colours, or a conflict; distinct = the set itself."
)
ASSUMPTIONS = ["spec predicate contracts.palette_spec is the statement of C15 coded independently of the slot-filling loop"]
RGBA = [(255, 0, 0, 1.0), (0, 128, 255, 1.0), (255, 0, 0, 0.5)]
NFONTS = {"quick": 960, "thorough": 4000}
CHUNK = 1200


def universe():
    return [(c, idx) for c in RGBA for idx in (None, 0, 1, 2, 3, 4, 5)]


def all_sets():
    u = universe()
    for k in range(0, 7):
        for comb in itertools.combinations(range(len(u)), k):
            yield comb


def plan(tier, seed):
    total = sum(1 for _ in all_sets())
    cases = [{"id": f"fn-{a}", "kind": "fn", "start": a, "stop": min(total, a + CHUNK)} for a in range(0, total, CHUNK)]
    cases += [{"id": f"{seed}-font{i}", "kind": "font", "i": i} for i in range(NFONTS[tier])]
    return cases


def run_fn(case):
    from nanoemoji import colors as cm
    from vf.hooks import contracts

    u = universe()
    res = {"counters": {"fn_sets": 0, "fn_calls": 0, "fn_conflict_sets": 0, "fn_mixed_sets": 0}, "violations": [], "keys": []}
    c = res["counters"]
    r = common.rng(ID, "order", case["start"])
    for n, comb in enumerate(itertools.islice(all_sets(), case["start"], case["stop"])):
        cols = [cm.Color(*u[i][0], palette_index=u[i][1]) for i in comb]
        idxs = [x.palette_index for x in cols if x.palette_index is not None]
        conflict = len(idxs) != len(set(idxs))
        c["fn_sets"] += 1
        c["fn_conflict_sets"] += conflict
        mixed = bool(idxs) and len(idxs) < len(cols)
        c["fn_mixed_sets"] += mixed
        outs = []
        orders = [list(cols), list(reversed(cols)), r.sample(cols, len(cols))]
        for o in orders:
            c["fn_calls"] += 1
            try:
                out = cm.uniq_sort_cpal_colors(iter(o))
                outs.append(("ok", out))
            except ValueError as e:
                outs.append(("ValueError", str(e)[:80]))
            except Exception as e:
                outs.append((type(e).__name__, str(e)[:80]))
        for kind, out in outs:
            if conflict:
                if kind != "ValueError":
                    res["violations"].append({"what": f"two colours for one index must raise ValueError, got {kind}", "colours": [tuple(x) for x in cols]})
                    break
            else:
                if kind != "ok":
                    res["violations"].append({"what": f"valid colour set raised {kind}: {out}", "colours": [tuple(x) for x in cols]})
                    break
                msg = contracts.palette_spec(cols, out)
                if msg:
                    res["violations"].append({"what": "palette violates the statement: " + msg, "colours": [tuple(x) for x in cols], "result": [tuple(x) for x in out]})
                    break
        if not conflict and all(k == "ok" for k, _ in outs) and len({tuple(tuple(x) for x in o) for _, o in outs}) != 1:
            res["violations"].append({"what": "palette depends on input order", "colours": [tuple(x) for x in cols]})
        if mixed or conflict:
            res["keys"].append("s%d" % (case["start"] + n))
    res["nontrivial"] = True
    if case["start"] == 0:
        res["sample"] = {"universe": [list(x[0]) + [x[1]] for x in u], "example_set": [list(u[i][0]) + [u[i][1]] for i in (1, 8, 16)]}
    res["evaluated"] = res["counters"]["fn_calls"]  # every call of the palette function, trivial or not
    return res


def css(col, idx):
    s = "#%02x%02x%02x" % tuple(col[:3])
    return f"var(--color{idx}, {s})" if idx is not None else s


def gen_font(case):
    r = common.rng(ID, case["seed"], case["i"])
    version = r.choice([0, 1])
    fmt = r.choice(["glyf_colr_%d" % version, "cff_colr_%d" % version] if r.random() < 0.8 else ["cff2_colr_%d" % version])
    palette_pool = [tuple(r.randint(0, 255) for _ in range(3)) for _ in range(6)] + [(0, 0, 0), (255, 255, 255)]
    idx_of = {}
    used_idx = set()
    conflict = r.random() < 0.12
    layers = []  # per glyph: list of dict(kind, stops/col)
    glyphs = []
    for g in range(r.randint(1, 3)):
        body, defs, exp = "", "", []
        for l in range(r.randint(1, 4)):
            x, y = 10 + 18 * l, 10 + 12 * l
            op = r.choice([1.0, 1.0, 0.5, 0.25])

            def pick():
                if r.random() < 0.15:
                    if r.random() < 0.4:
                        # the foreground colour named through a palette variable: still the foreground
                        free = [i for i in range(8) if i not in used_idx]
                        if free:
                            i_ = r.choice(free)
                            used_idx.add(i_)
                            return ("fg", None, i_)
                    return ("fg", None, None)
                col = r.choice(palette_pool)
                idx = None
                if r.random() < 0.5:
                    if col in idx_of:
                        idx = idx_of[col]
                    else:
                        free = [i for i in range(8) if i not in used_idx]
                        if free:
                            idx = r.choice(free)
                            idx_of[col] = idx
                            used_idx.add(idx)
                return ("rgb", col, idx)

            if r.random() < 0.3:
                stops = []
                sx = ""
                for o in (0, 0.5, 1):
                    k, col, idx = pick()
                    so = r.choice([1.0, 0.6])
                    cs = ("currentColor" if idx is None else f"var(--color{idx}, currentColor)") if k == "fg" else css(col, idx)
                    sx += f'<stop offset="{o}" stop-color="{cs}"' + (f' stop-opacity="{so}"' if so != 1 else "") + "/>"
                    stops.append((k, col, idx, so * op))
                gid = f"g{g}_{l}"
                defs += f'<linearGradient id="{gid}" gradientUnits="userSpaceOnUse" x1="{x}" y1="{y}" x2="{x+30}" y2="{y}">{sx}</linearGradient>'
                fill = f"url(#{gid})"
                exp.append(("grad", stops))
            else:
                k, col, idx = pick()
                fill = ("currentColor" if idx is None else f"var(--color{idx}, currentColor)") if k == "fg" else css(col, idx)
                exp.append(("solid", (k, col, idx, op)))
            body += f'<rect x="{x}" y="{y}" width="30" height="20" fill="{fill}"' + (f' opacity="{op}"' if op != 1 else "") + "/>"
        if version == 1 and body.count("<rect") >= 2 and common.rng(ID, "group", case["seed"], case["i"], g).random() < 0.3:
            # group opacity: COLRv1 writes it as a composite over a translucent black backdrop, a colour no source names
            body = f'<g opacity="0.5">{body}</g>'
        glyphs.append((f'<svg xmlns="http://www.w3.org/2000/svg" viewBox="0 0 100 100"><defs>{defs}</defs>{body}</svg>', exp))
    if conflict and idx_of:
        col, idx = next(iter(idx_of.items()))
        other = tuple((v + 40) % 256 for v in col)
        glyphs.append((f'<svg xmlns="http://www.w3.org/2000/svg" viewBox="0 0 100 100"><defs/><rect x="5" y="5" width="40" height="40" fill="{css(other, idx)}"/></svg>', [("solid", ("rgb", other, idx, 1.0))]))
    else:
        conflict = False
    cfg = {"color_format": fmt, "upem": 1000, "ascender": 800, "descender": -200, "width": 1000, "reuse_tolerance": r.choice([0.1, -1]), "keep_glyph_names": True}
    sources = [{"svg": s, "codepoints": [0xE000 + i]} for i, (s, _) in enumerate(glyphs)]
    return sources, cfg, [e for _, e in glyphs], version, conflict


def run_font(case):
    from vf.checks import render_common as rc
    from vf.drive import inproc
    from vf.hooks import contracts
    from vf.oracle import colreval

    sources, cfg, expected, version, conflict = gen_font(case)
    res = {"counters": {}, "violations": [], "tags": [cfg["color_format"]]}
    c = res["counters"]
    contracts.install()
    contracts.reset()
    # COLRv0 keeps alpha in the palette: one index at two alphas is a (legal) conflict there
    v0_alpha_conflict = False
    if version == 0:
        seen = {}
        for exp in expected:
            for kind, e in exp:
                for (k, col, idx, a) in ([e] if kind == "solid" else e):  # every colour of every paint enters the v0 palette with its alpha
                    if k == "rgb" and idx is not None:
                        if seen.setdefault(idx, (col, round(a, 4))) != (col, round(a, 4)):
                            v0_alpha_conflict = True
    try:
        built = inproc.build(sources, cfg)
    except ValueError as e:
        if "already maps to" in str(e):
            c["font_conflict_refused"] = 1
            if not (conflict or v0_alpha_conflict):
                res["violations"].append({"what": "palette conflict reported for a conflict-free colour set: " + str(e)[:200], "config": cfg})
            res["nontrivial"] = True
            res["key"] = common.sha([sources, cfg])
            return res
        res["violations"].append({"what": f"build raised ValueError: {str(e)[:300]}", "config": cfg, "trace": traceback.format_exc()[-1200:]})
        return res
    except Exception as e:
        res["violations"].append({"what": f"build raised {type(e).__name__}: {str(e)[:300]}", "config": cfg, "trace": traceback.format_exc()[-1200:]})
        return res
    if conflict:
        res["violations"].append({"what": "two different colours declared for one palette index, yet the build succeeded", "config": cfg, "sources": [s["svg"] for s in sources]})
        return res
    font = built.font
    cpal = font["CPAL"]
    if len(cpal.palettes) != 1 or len(cpal.palettes[0]) == 0:
        res["violations"].append({"what": f"CPAL has {len(cpal.palettes)} palettes / empty palette", "config": cfg})
        return res
    pal = cpal.palettes[0]
    c["fonts"] = 1
    if version == 1 and any(p.alpha != 255 for p in pal):
        res["violations"].append({"what": "COLRv1 palette entry is not opaque", "palette": [(p.red, p.green, p.blue, p.alpha) for p in pal], "config": cfg})
    ev = colreval.Evaluator(font)
    used_slots = set()
    for i, exp in enumerate(expected):
        name = rc.reach(font, sources[i]["codepoints"])[0]
        layers = ev.display_list(name, fold=False)
        if len(layers) != len(exp):
            res["violations"].append({"what": "layer count", "glyph": name, "got": len(layers), "want": len(exp), "config": cfg})
            continue
        for l, (kind, e) in zip(layers, exp):
            got = []
            if version == 0:
                want = [e] if kind == "solid" else [e[0]]
                got = [(l.paint.color, l.paint.alpha)]
            else:
                want = [e] if kind == "solid" else list(e)
                got = [(l.paint.color, l.paint.alpha)] if l.paint.kind == "solid" else [(col, a) for _, (col, a) in l.paint.stops]
            if len(got) != len(want):
                res["violations"].append({"what": "stop count", "glyph": name, "config": cfg})
                continue
            for (gcol, galpha), (k, col, idx, a) in zip(got, want):
                c["colour_refs_checked"] = c.get("colour_refs_checked", 0) + 1
                if k == "fg":
                    c["fg_refs"] = c.get("fg_refs", 0) + 1
                    if gcol[0] != "fg":
                        res["violations"].append({"what": "currentColor did not become palette index 0xFFFF", "glyph": name, "got": gcol, "config": cfg})
                    elif version == 1 and abs(galpha - a) > 0.004:
                        res["violations"].append({"what": "alpha of a currentColor paint", "glyph": name, "got": galpha, "want": a, "config": cfg})
                    continue
                if gcol[0] != "rgb" or tuple(gcol[1]) != tuple(col):
                    res["violations"].append({"what": "colour resolved through CPAL differs from the declared colour", "glyph": name, "got": gcol, "want": col, "config": cfg})
                    continue
                used_slots.add(gcol[2])
                if idx is not None:
                    c["indexed_refs"] = c.get("indexed_refs", 0) + 1
                    if gcol[2] != idx:
                        res["violations"].append({"what": f"var(--color{idx}) colour sits at palette index {gcol[2]}", "glyph": name, "config": cfg})
                if abs(galpha - a) > 0.004:
                    res["violations"].append({"what": "alpha (paint alpha x palette alpha) differs from the declared opacity", "glyph": name, "got": galpha, "want": a, "version": version, "config": cfg})
    for i, p in enumerate(pal):
        if i not in used_slots and (p.red, p.green, p.blue) != (0, 0, 0):
            # unindexed colours that are declared but e.g. only used as later gradient stops in v0 still count as used
            if version == 1:
                res["violations"].append({"what": f"palette slot {i} is neither used nor black", "palette": [(q.red, q.green, q.blue, q.alpha) for q in pal], "config": cfg})
    for v in contracts.violations():
        res["violations"].append(v)
    c.update({k: v for k, v in contracts.counters().items() if k.startswith("H4")})
    res["nontrivial"] = True
    res["key"] = common.sha([sources, cfg])
    if case["i"] < 2:
        res["sample"] = {"config": cfg, "source": sources[0]["svg"], "palette": [(p.red, p.green, p.blue, p.alpha) for p in pal]}
    return res


def run_case(case):
    if case["kind"] == "fn":
        from vf.drive import inproc

        inproc.init()
        return run_fn(case)
    return run_font(case)


def finish(agg):
    c = agg["counters"]
    inc = []
    total = sum(1 for _ in all_sets())
    if c.get("fn_sets", 0) != total:
        inc.append(f"function space not enumerated completely: {c.get('fn_sets', 0)} of {total}")
    for k in ("fn_conflict_sets", "fn_mixed_sets", "indexed_refs", "fg_refs", "font_conflict_refused", "H4.palette"):
        if c.get(k, 0) == 0:
            inc.append(f"deciding monitor/branch never reached: {k}")
    return {"inconclusive": inc, "coverage": {"exhaustive": c.get("fn_sets", 0) == total, "function_space": f"{total} colour sets x 3 input orders (exhaustive for the function part; the font part is sampled)"}}
