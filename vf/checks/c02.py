"""C02 — OT-SVG glyph documents render the same picture as their sources."""
import traceback

from vf import common
from vf.checks import c01
from vf.gen import svggen

ID = "C02"
LEVEL = "exploration"
RULE = (
    "case = one OT-SVG font (picosvg / picosvgz; untouchedsvg[z] cases are rasterised with resvg) from 1-5 generated sources "
    "with shared shapes chained across glyphs (also glyphs whose viewBoxes differ in scale), sequences of length 1..n so GSUB "
    "exists while glyphs are reshuffled, pretty_print / compression on and off.  For each source: the glyph id reached by the "
    "mini-shaper must be covered by exactly one document holding exactly one element glyph<ID>; that element, evaluated by "
    "the SVG evaluator (use/x/y/transform, fill inheritance through use, defs, shared gradients) in OT-SVG space, is compared "
    "layer by layer with the source placed as in C01.  Non-trivial = glyph with a <use>, a gradient, a group or >= 2 layers."
)
ASSUMPTIONS = [
    "picosvg-normal source is the reference",
    "outline tolerance for SVG output: 3.0 font units x scale of the <use> transform + reuse_tolerance (viewBox units, scaled) x nseg",
    "decimal rounding of emitted transforms is computed per layer but never used as an allowance, only to classify F8",
]
N = {"quick": 176, "thorough": 3000}


def plan(tier, seed):
    cases = [{"id": f"{seed}-{i}", "i": i, "kind": "pico"} for i in range(N[tier])]
    nraw = {"quick": 24, "thorough": 400}[tier]
    cases += [{"id": f"{seed}-raw{i}", "i": i, "kind": "raw"} for i in range(nraw)]
    return cases


def gen_case(case):
    r = common.rng(ID, case["seed"], case["i"])
    pal = svggen.FontPalette(r)
    cfg = svggen.font_config(r, ("picosvg", "picosvg", "picosvgz"))
    cfg["pretty_print"] = r.random() < 0.4
    srcs = []
    mode = r.random()
    meta = {}
    if mode < 0.07:
        meta["mode"] = "paint-varied-reuse"
        srcs.extend(svggen.paint_varied_reuse_set(r, r.randint(1, 3), defaults=True))
        cfg["reuse_tolerance"] = 0.1
    elif mode < 0.14:
        meta["mode"] = "twin-gradients"
        for g in range(r.randint(1, 2)):
            t, m = svggen.twin_gradient_source(r, g)
            srcs.append(t)
        if "transform" in cfg:
            del cfg["transform"]
    elif mode < 0.3:
        meta["mode"] = "random"
        for g in range(r.randint(1, 4)):
            t, m = svggen.svg_source(r, g, pal)
            srcs.append(t)
    elif mode < 0.8:
        meta["mode"] = "recurrence"
        svgs, m = svggen.recurrence_set(r, r.randint(2, 5), pal, same_vb=r.random() < 0.5, vb_choices=(24, 64, 128, 1000) if r.random() < 0.7 else (36, 4000))
        meta["viewBoxes"] = m["viewBoxes"]
        srcs.extend(svgs)
    else:
        meta["mode"] = "mixed"
        svgs, m = svggen.recurrence_set(r, r.randint(2, 3), pal)
        srcs.extend(svgs)
        for g in range(r.randint(1, 2)):
            t, m = svggen.svg_source(r, 7 + g, pal)
            srcs.append(t)
        r.shuffle(srcs)
    seqs = svggen.sequences(r, len(srcs), long_names=r.random() < 0.2)
    return [{"svg": s, "codepoints": list(q)} for s, q in zip(srcs, seqs)], cfg, meta


def run_case(case):
    from vf.checks import render_common as rc
    from vf.drive import inproc
    from vf.hooks import contracts

    if case["kind"] == "raw":
        from vf.checks import c02_raw

        return c02_raw.run_case(case)
    sources, cfg, meta = gen_case(case)
    res = {"counters": {}, "maxes": {}, "violations": [], "tags": [cfg["color_format"], meta["mode"]]}
    try:
        norm = [inproc.picosvg_normal(s["svg"], cfg["clip_to_viewbox"]) for s in sources]
    except Exception:
        res["counters"]["picosvg_rejected"] = 1
        return res
    if any(c01.has_empty_path(n) for n in norm):
        res["counters"]["skipped_empty_path_after_clip"] = 1
        return res
    contracts.install()
    contracts.reset()
    try:
        built = inproc.build(sources, cfg, normalised=norm)
    except Exception as e:
        if rc.is_overflow_refusal(e):
            res["counters"]["build_refused_overflow"] = 1
            return res
        if isinstance(e, ValueError) and "Expected uniform scale and/or translate" in str(e) and "transform" in cfg:
            # radial gradient + non-uniform user transform in OT-SVG output is refused with an explicit error
            res["counters"]["build_refused_nonuniform_radial"] = 1
            return res
        res["violations"].append({"what": f"build raised {type(e).__name__}: {str(e)[:300]}", "trace": traceback.format_exc()[-1500:], "config": cfg})
        return res
    problems, stats = rc.check_picosvg_font(built)
    for p in problems:
        p["config"] = cfg
        res["violations"].append(p)
    for v in contracts.violations():
        res["violations"].append(v)
    c = res["counters"]
    for k in ("glyphs", "layers", "gradient_layers", "use_layers", "undecided_gradient_layers", "nontrivial_glyphs", "docs", "multi_glyph_docs"):
        c[k] = stats[k]
    c.update(contracts.counters())
    if "GSUB" in built.font:
        c["fonts_with_gsub"] = 1
    for k in ("max_h_over_eps", "max_h", "max_colour_excess"):
        res["maxes"][k] = stats[k]
    res["nontrivial"] = stats["nontrivial_glyphs"] > 0
    res["key"] = common.sha([sources, cfg])
    if case["i"] < 2:
        res["sample"] = {"config": cfg, "sources": [s["svg"][:500] for s in sources][:2], "doc": rc.svg_docs(built.font)[0][0][:800], "stats": stats}
    return res


def finish(agg):
    c = agg["counters"]
    inc = []
    for k in ("use_layers", "multi_glyph_docs", "gradient_layers", "H9.use", "fonts_with_gsub"):
        if c.get(k, 0) == 0:
            inc.append(f"deciding monitor/branch never reached: {k}")
    return {"inconclusive": inc}
