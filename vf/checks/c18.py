"""C18 — A variable colour font reproduces each master at its location."""
import io
import os
import shutil
import time
import traceback

from vf import common

ID = "C18"
LEVEL = "exploration"
RULE = (
    "case = one multi-master configuration: one axis with 2-3 masters, or two axes (declared in either order, overlapping ranges) with 3-4 masters; master sources in m<k>/ or in m<k>/svg/ (same leaf directory name); masters generated as consistent deformations of one prototype (same shapes, "
    "commands, fills and gradient kinds; coordinates, sizes and gradient geometry differ), 1-3 glyphs, axis ranges and default "
    "position varied, metrics varied, half of the cases with reuse disabled; built by the real CLI (write_font per master -> "
    "write_variable_font).  The VF is evaluated at every master's location (gvar outlines through getGlyphSet(location), "
    "advance at the location, variable paints / ClipBox format 2 through the COLR VarStore) and compared with a static build "
    "of that master alone: same layers, colours, outlines within 1.5 units + quantisation, same advance; default location = "
    "default master; at t in {0.25, 0.5, 0.75} between masters the clip box in force must contain the geometry at that "
    "location.  Non-trivial = VF with >= 1 variable paint or clip box or >= 2 glyphs; distinct = the configuration."
)
ASSUMPTIONS = ["'every location' is sampled: master locations + 3 interior points per pair of neighbouring masters on one axis", "COLR evaluator evaluates variable paints through fontTools' VarStoreInstancer (delta lookup only)"]
N = {"quick": 32, "thorough": 320}
TIMEOUT = {"quick": 1500, "thorough": 6 * 3600}
CASE_TIMEOUT = 900


def plan(tier, seed):
    return [{"id": f"{seed}-{i}", "i": i} for i in range(N[tier])]


AXIS_POOL = [("wght", "Weight"), ("wdth", "Width"), ("SKIN", "Skin"), ("MOOD", "Mood"), ("ROND", "Round"), ("AAAA", "First")]


def gen(r):
    if r.random() < 0.6:
        nm = r.choice([2, 2, 3])
        positions = sorted(r.sample([100, 200, 300, 400, 500, 700, 900, 62.5, 87.5, 350.5], nm))
        axes = [("wght", "Weight")]
        locations = [{"wght": p} for p in positions]
        default = {"wght": r.choice(positions)}
    else:
        # two axes, declared in either order (not necessarily alphabetical), with overlapping ranges; masters: the
        # default corner, one master out along each axis, sometimes the far corner
        axes = r.sample(AXIS_POOL, 2)
        vals = {}
        for tag, _ in axes:
            a, b = sorted(r.sample([0, 50, 100, 200, 400, 700, 900, 62.5, 87.5, 10.5, 151.25], 2))
            vals[tag] = (a, b) if r.random() < 0.6 else (b, a)  # (default, other)
        t0, t1 = axes[0][0], axes[1][0]
        default = {t0: vals[t0][0], t1: vals[t1][0]}
        locations = [dict(default), {t0: vals[t0][1], t1: vals[t1][0]}, {t0: vals[t0][0], t1: vals[t1][1]}]
        if r.random() < 0.3:
            locations.append({t0: vals[t0][1], t1: vals[t1][1]})
        r.shuffle(locations)
        nm = len(locations)
        positions = [tuple(l[t] for t, _ in axes) for l in locations]
    same_leaf_dirs = r.random() < 0.5
    # master names as designers write them: one name may be the tail of another (semibold / bold)
    pools = [["regular", "semibold", "bold", "extrabold"], ["extralight", "light", "regular", "bold"], ["semicondensed", "condensed", "normal", "wide"], ["m0", "m1", "m2", "m3"], ["m0", "m1", "m2", "m3"]]
    names = r.choice(pools)[:nm]
    edit_master = r.random() < 0.35
    vb = r.choice([100, 128, 1000])
    upem = r.choice([1000, 1024, 2048])
    asc = int(upem * r.choice([0.8, 0.9, 0.95]))
    desc = asc - upem
    reuse = r.random() < 0.5
    nglyphs = r.randint(1, 3)
    glyphs = []
    for g in range(nglyphs):
        shapes = []
        for s in range(r.randint(1, 3)):
            kind = r.choice(["rect", "poly", "poly", "ellipse"])  # ellipse: cubic curves, converted to quadratics jointly for all masters
            fill = r.choice(["solid", "solid", "linear", "radial"])
            col = "#%06x" % r.randint(0, 0xFFFFFF)
            col2 = "#%06x" % r.randint(0, 0xFFFFFF)
            op = r.choice([1.0, 1.0, 0.6])
            n = r.randint(3, 6)
            base = {
                "x": r.uniform(0.1, 0.5), "y": r.uniform(0.1, 0.5), "w": r.uniform(0.2, 0.4), "h": r.uniform(0.15, 0.4),
                # star-shaped around a centre, angles increasing: a simple polygon that stays simple (and keeps its
                # orientation) under the small per-master jitter, so the masters really are structurally compatible
                "pts": (lambda cx, cy, rad: [(cx + rad * r.uniform(0.6, 1.0) * __import__("math").cos(2 * 3.14159265 * k / n + 0.3), cy + rad * r.uniform(0.6, 1.0) * __import__("math").sin(2 * 3.14159265 * k / n + 0.3)) for k in range(n)])(r.uniform(0.35, 0.65), r.uniform(0.35, 0.65), r.uniform(0.15, 0.3)),
                "g": [r.uniform(0.1, 0.4), r.uniform(0.1, 0.4), r.uniform(0.6, 0.9), r.uniform(0.6, 0.9), r.uniform(0.2, 0.45)],
            }
            per_master = []
            for m in range(nm):
                if m == 0:
                    per_master.append(base)
                else:
                    j = lambda v: v + r.uniform(-0.03, 0.03)
                    per_master.append({"x": j(base["x"]), "y": j(base["y"]), "w": abs(j(base["w"])) + 0.05, "h": abs(j(base["h"])) + 0.05, "pts": [(j(x), j(y)) for x, y in base["pts"]], "g": [j(v) for v in base["g"][:4]] + [abs(j(base["g"][4])) + 0.05]})
            shapes.append({"kind": kind, "fill": fill, "col": col, "col2": col2, "op": op, "params": per_master})
        glyphs.append(shapes)
    if r.random() < 0.3:
        # one glyph is full-bleed in a non-default master and smaller in the default one
        dflt_i = next(i for i, l in enumerate(locations) if l == default)
        other = r.choice([i for i in range(nm) if i != dflt_i])
        pm = []
        for m in range(nm):
            if m == other:
                pm.append({"x": 0.0, "y": 0.0, "w": 1.0, "h": 1.0, "pts": [], "g": [0.1, 0.1, 0.9, 0.9, 0.4]})
            else:
                pm.append({"x": 0.25 + 0.02 * m, "y": 0.2, "w": 0.5, "h": 0.55, "pts": [], "g": [0.1, 0.1, 0.9, 0.9, 0.4]})
        glyphs[r.randrange(len(glyphs))].insert(0, {"kind": "rect", "fill": "solid", "col": "#%06x" % r.randint(0, 0xFFFFFF), "col2": "#000000", "op": 1.0, "params": pm})
    if r.random() < 0.3:
        # a shape that overhangs the right or the bottom edge of the viewBox in *every* master (by different amounts):
        # with clip_to_viewbox each master is cut at the edge, and stays compatible
        side = r.choice(["right", "bottom"])
        pm = []
        for m in range(nm):
            a, b = 0.55 + 0.03 * m, 0.6 + 0.12 * m  # start inside, extent beyond the edge
            c0, c1 = 0.2 + 0.02 * m, 0.3 + 0.03 * m
            pm.append({"x": a, "y": c0, "w": b, "h": c1, "pts": [], "g": [0.1, 0.1, 0.9, 0.9, 0.4]} if side == "right" else {"x": c0, "y": a, "w": c1, "h": b, "pts": [], "g": [0.1, 0.1, 0.9, 0.9, 0.4]})
        glyphs[r.randrange(len(glyphs))].append({"kind": "rect", "fill": "solid", "col": "#%06x" % r.randint(0, 0xFFFFFF), "col2": "#000000", "op": 1.0, "params": pm, "overhang": side})
    common_glyph = r.randrange(nglyphs) if (nglyphs >= 2 and r.random() < 0.3) else None
    if common_glyph is not None:
        names = ["bold", "thin", "regular", "wide"][:nm]  # directories sorting on either side of "common"
    return {"common_glyph": common_glyph, "positions": positions, "axes": axes, "locations": locations, "same_leaf_dirs": same_leaf_dirs, "names": names, "edit_master": edit_master, "default": default, "vb": vb, "upem": upem, "asc": asc, "desc": desc, "reuse": reuse, "glyphs": glyphs}


def svg_for(spec, g, m):
    vb = spec["vb"]
    defs, body = "", ""
    if g == spec.get("common_glyph"):
        m = 0  # this glyph's artwork is shared by all masters (it lives in a directory every master lists)
    for i, sh in enumerate(spec["glyphs"][g]):
        p = sh["params"][m]
        if sh["fill"] == "solid":
            fill = sh["col"]
        elif sh["fill"] == "linear":
            gx = p["g"]
            defs += f'<linearGradient id="l{i}" gradientUnits="userSpaceOnUse" x1="{gx[0]*vb:.3f}" y1="{gx[1]*vb:.3f}" x2="{gx[2]*vb:.3f}" y2="{gx[3]*vb:.3f}"><stop offset="0" stop-color="{sh["col"]}"/><stop offset="1" stop-color="{sh["col2"]}"/></linearGradient>'
            fill = f"url(#l{i})"
        else:
            gx = p["g"]
            defs += f'<radialGradient id="r{i}" gradientUnits="userSpaceOnUse" cx="{gx[0]*vb+0.2*vb:.3f}" cy="{gx[1]*vb+0.2*vb:.3f}" r="{gx[4]*vb:.3f}"><stop offset="0" stop-color="{sh["col"]}"/><stop offset="1" stop-color="{sh["col2"]}"/></radialGradient>'
            fill = f"url(#r{i})"
        op = f' opacity="{sh["op"]}"' if sh["op"] != 1.0 else ""
        if sh["kind"] == "ellipse":
            body += f'<ellipse cx="{(p["x"]+p["w"]/2)*vb:.3f}" cy="{(p["y"]+p["h"]/2)*vb:.3f}" rx="{p["w"]/2*vb:.3f}" ry="{p["h"]/2*vb:.3f}" fill="{fill}"{op}/>'
        elif sh["kind"] == "rect":
            body += f'<rect x="{p["x"]*vb:.3f}" y="{p["y"]*vb:.3f}" width="{p["w"]*vb:.3f}" height="{p["h"]*vb:.3f}" fill="{fill}"{op}/>'
        else:
            d = "M" + " L".join(f"{x*vb:.3f},{y*vb:.3f}" for x, y in p["pts"]) + " Z"
            body += f'<path d="{d}" fill="{fill}"{op}/>'
    return f'<svg xmlns="http://www.w3.org/2000/svg" viewBox="0 0 {vb} {vb}"><defs>{defs}</defs>{body}</svg>'


def run_case(case):
    import numpy as np
    import toml
    from fontTools.ttLib import TTFont
    from fontTools.varLib.models import normalizeLocation

    from vf.checks import render_common as rc
    from vf.drive import cli, inproc
    from vf.oracle import colreval, compare, geom

    inproc.init()
    r = common.rng(ID, case["seed"], case["i"])
    spec = gen(r)
    res = {"counters": {}, "maxes": {}, "violations": [], "tags": (["shared-common-dir"] if spec.get("common_glyph") is not None else []) + ["masters=%d" % len(spec["positions"]), "axes=%d" % len(spec["axes"]), "reuse" if spec["reuse"] else "noreuse", "same-leaf-dirs" if spec["same_leaf_dirs"] else "distinct-dirs"]}
    if len(spec["axes"]) == 2 and [t for t, _ in spec["axes"]] != sorted(t for t, _ in spec["axes"]):
        res["tags"].append("axes-declared-out-of-tag-order")
    c = res["counters"]
    root = common.mkscratch("c18-")
    try:
        names = ["emoji_u%x.svg" % (0x1F600 + g) for g in range(len(spec["glyphs"]))]
        cfg = {
            "output_file": "VF.ttf", "color_format": "glyf_colr_1", "upem": spec["upem"], "ascender": spec["asc"], "descender": spec["desc"], "width": spec["upem"],
            "reuse_tolerance": 0.1 if spec["reuse"] else -1, "clip_to_viewbox": case["i"] % 2 == 0, "keep_glyph_names": True,
            "axis": {tag: {"name": nm_, "default": spec["default"][tag]} for tag, nm_ in spec["axes"]},
            "master": {},
        }
        mdirs = []
        for m, loc in enumerate(spec["locations"]):
            mname = spec["names"][m]
            sub = f"{mname}/svg" if spec["same_leaf_dirs"] else f"{mname}"
            d = root / sub
            d.mkdir(parents=True)
            mdirs.append(d)
            for g, n in enumerate(names):
                if g == spec.get("common_glyph"):
                    (root / "common").mkdir(exist_ok=True)
                    (root / "common" / n).write_text(svg_for(spec, g, 0))
                else:
                    (d / n).write_text(svg_for(spec, g, m))
            cfg["master"][mname] = {"style_name": "M%d" % m, "position": dict(loc), "srcs": [f"{sub}/*.svg"] + (["common/*.svg"] if spec.get("common_glyph") is not None else [])}
        (root / "vf.toml").write_text(toml.dumps(cfg))
        rcode, out = cli.nanoemoji(["--build_dir", str(root / "build"), "vf.toml"], root, cli.env_for(events=root / "ev.jsonl"), timeout=600)
        c["vf_builds"] = 1
        ctx = {"positions": spec["positions"], "default": spec["default"], "reuse": spec["reuse"], "upem": spec["upem"]}
        if rcode != 0:
            mech = None
            if spec["reuse"] and spec.get("common_glyph") is not None and ("inconsistent formats between masters" in out or "fonts contains incompatible glyphs" in out):
                # known finding F23: which glyph donates a shared outline follows each master's own source order
                mech = "F23-vf-reuse-donor-follows-per-master-source-order"
            if mech is None and spec["reuse"] and ("inconsistent formats between masters" in out or "fonts contains incompatible glyphs" in out):
                # F32: with reuse on, each master decides for itself which shapes are affine images of which (all ellipses
                # are, within the tolerance or not); when the masters decide differently their paint graphs and outline
                # glyph sets differ although the sources have one structure.  Shown by building every master alone.
                try:
                    sigs = []
                    scfg_ = {k: v for k, v in cfg.items() if k not in ("axis", "master", "output_file")}
                    for m_ in range(len(spec["locations"])):
                        b_ = inproc.build([{"svg": svg_for(spec, g, m_), "codepoints": [0x1F600 + g]} for g in range(len(names))], scfg_)
                        colr_ = b_.font["COLR"].table
                        sig = []
                        for rec in colr_.BaseGlyphList.BaseGlyphPaintRecord:
                            stack, fm = [rec.Paint], []
                            while stack:
                                p_ = stack.pop()
                                fm.append((int(p_.Format), getattr(p_, "Glyph", None)))
                                for a_ in ("Paint", "SourcePaint", "BackdropPaint"):
                                    if getattr(p_, a_, None) is not None:
                                        stack.append(getattr(p_, a_))
                                if int(p_.Format) == 1:
                                    stack.extend(colr_.LayerList.Paint[p_.FirstLayerIndex : p_.FirstLayerIndex + p_.NumLayers])
                            sig.append((rec.BaseGlyph, tuple(sorted(fm, key=str))))
                        sigs.append((tuple(sig), tuple(sorted(g_ for g_ in b_.font.getGlyphOrder()))))
                    if len(set(sigs)) > 1:
                        mech = "F32-vf-reuse-decisions-differ-per-master"
                    elif len(set(sigs)) == 1:
                        # the same graph shape in every master, but a re-used outline is stored from the first master's
                        # geometry of *another* shape: check with reuse off
                        pass
                except Exception:
                    pass
            res["violations"].append(dict(ctx, what=f"variable build failed (exit {rcode}) although the masters are structurally compatible", output=out[:3000], mechanism=mech, sources=[svg_for(spec, 0, m) for m in range(len(spec["positions"]))]))
            return res
        vf = TTFont(str(root / "build" / "VF.ttf"), lazy=False)
        if "fvar" not in vf:
            res["violations"].append(dict(ctx, what="output has no fvar table"))
            return res
        axes = {ax.axisTag: (ax.minValue, ax.defaultValue, ax.maxValue) for ax in vf["fvar"].axes}
        for tag, _ in spec["axes"]:
            vs = [l[tag] for l in spec["locations"]]
            want = (min(vs), spec["default"][tag], max(vs))
            if axes.get(tag) != want:
                res["violations"].append(dict(ctx, what=f"fvar axis {tag} is {axes.get(tag)}, configured {want}"))
        if set(axes) != {t for t, _ in spec["axes"]}:
            res["violations"].append(dict(ctx, what=f"fvar axes {sorted(axes)} differ from the configured {sorted(t for t, _ in spec['axes'])}"))
            return res
        colr = vf["COLR"]
        c["var_store"] = 1 if getattr(colr.table, "VarStore", None) is not None else 0
        statics = []
        scfg = {k: v for k, v in cfg.items() if k not in ("axis", "master", "output_file")}
        for m, loc in enumerate(spec["locations"]):
            srcs = [{"svg": svg_for(spec, g, m), "codepoints": [0x1F600 + g]} for g in range(len(names))]
            statics.append(inproc.build(srcs, scfg))
        tol = compare.Tol(spec["upem"], output="colr", extra=1.5)

        def at(pos):
            norm = normalizeLocation(dict(pos), axes)
            ev = colreval.Evaluator.__new__(colreval.Evaluator)
            ev.font = vf
            ev.colr = colr
            ev.vc = colreval.VarCtx(vf, norm)
            ev.palette = 0
            ev.gs = vf.getGlyphSet(location=norm, normalized=True)
            ev._ops = {}
            t = colr.table
            ev.base = {rr.BaseGlyph: rr.Paint for rr in t.BaseGlyphList.BaseGlyphPaintRecord}
            ev.layers = t.LayerList.Paint if t.LayerList else []
            return ev, norm

        def check_master(m, pos, st, label=""):
            ev, norm = at(pos)
            evs = colreval.Evaluator(st.font)
            for g in range(len(names)):
                cp = 0x1F600 + g
                nv = rc.reach(vf, (cp,))
                ns = rc.reach(st.font, (cp,))
                if len(nv) != 1 or len(ns) != 1:
                    res["violations"].append(dict(ctx, what="codepoint does not shape to one glyph", vf=nv, static=ns))
                    continue
                c["glyph_locations_compared"] = c.get("glyph_locations_compared", 0) + 1
                adv_v = ev.gs[nv[0]].width
                adv_s = st.font["hmtx"][ns[0]][0]
                if abs(adv_v - adv_s) > 0.5:
                    res["violations"].append(dict(ctx, what=f"advance at master {pos}{label}: VF {adv_v}, static {adv_s}"))
                try:
                    lv = [l for l in ev.display_list(nv[0]) if l.contours]
                    ls = [l for l in evs.display_list(ns[0]) if l.contours]
                except colreval.Unsupported as e:
                    res["violations"].append(dict(ctx, what=f"paint graph cannot be evaluated: {e}"))
                    continue
                pr, stt = compare.compare_layers(ls, lv, tol, check_palette=False)
                for p in pr:
                    p["what"] = f"VF at master {pos}{label} differs from the static build of that master: " + p["what"]
                    p.update(ctx)
                    res["violations"].append(p)
                for k in ("max_h", "max_colour_excess"):
                    res["maxes"][k] = max(res["maxes"].get(k, 0.0), stt[k])
                # clip box in force at the master
                bv, bs = ev.clip_box(nv[0]), evs.clip_box(ns[0])
                if (bv is None) != (bs is None):
                    res["violations"].append(dict(ctx, what=f"clip box presence differs at master {pos}{label}: VF {bv}, static {bs}"))
                if bv is not None:
                    for l in lv:
                        bb = geom.bbox(l.contours)
                        e = (0.5 + 0.001 * spec["upem"]) * max(1.0, l.sigma) + 1.5 + l.err
                        outby = max(bv[0] - bb[0], bv[1] - bb[1], bb[2] - bv[2], bb[3] - bv[3])
                        c["master_boxes_checked"] = c.get("master_boxes_checked", 0) + 1
                        if outby > e:
                            res["violations"].append(dict(ctx, what=f"at master {pos}{label} the clip box in force {tuple(round(v, 1) for v in bv)} cuts the glyph {tuple(round(v, 1) for v in bb)} by {outby:.2f}"))
                if pos == spec["default"]:
                    c["default_location_checked"] = 1

        for m, pos in enumerate(spec["locations"]):
            check_master(m, pos, statics[m])
        # interior locations: the clip box in force contains the geometry there
        if len(spec["axes"]) == 1:
            ordered = sorted(spec["locations"], key=lambda l: l["wght"])
            segments = list(zip(ordered, ordered[1:]))
        else:
            segments = [(spec["default"], l) for l in spec["locations"] if l != spec["default"]]
        for a, b_ in segments:
            for t_ in (0.25, 0.5, 0.75):
                pos = {k: a[k] + (b_[k] - a[k]) * t_ for k in a}
                ev, norm = at(pos)
                for g in range(len(names)):
                    nv = rc.reach(vf, (0x1F600 + g,))
                    if len(nv) != 1:
                        continue
                    box = ev.clip_box(nv[0])
                    layers = [l for l in ev.display_list(nv[0]) if l.contours]
                    if box is None:
                        if layers:
                            res["violations"].append(dict(ctx, what=f"no clip box in force at {pos}"))
                        continue
                    c["interior_boxes_checked"] = c.get("interior_boxes_checked", 0) + 1
                    for l in layers:
                        bb = geom.bbox(l.contours)
                        e = (0.5 + 0.001 * spec["upem"]) * max(1.0, l.sigma) + 1.5 + l.err
                        outby = max(box[0] - bb[0], box[1] - bb[1], bb[2] - box[2], bb[3] - box[3])
                        res["maxes"]["max_interior_protrusion"] = max(res["maxes"].get("max_interior_protrusion", -1e9), outby)
                        if outby > e:
                            # known finding F22: a layer that re-uses another outline through a *variable* transform is
                            # (linear transform) x (linear outline) = quadratic in the axis, the variable clip box is linear
                            mech = "F22-vf-reused-layer-geometry-is-quadratic-clipbox-linear" if (l.transformed and spec["reuse"]) else None
                            res["violations"].append(dict(ctx, mechanism=mech, layer_ref=l.ref, what=f"at {pos} the clip box in force {tuple(round(v, 1) for v in box)} cuts interpolated geometry {tuple(round(v, 1) for v in bb)} by {outby:.2f}"))
        # a later run in the same build directory, after one non-default master's artwork was edited: the font must
        # reproduce the *edited* master at its location
        if spec["edit_master"] and not res["violations"]:
            cands = [m for m, l in enumerate(spec["locations"]) if l != spec["default"]]
            m = cands[case["i"] % len(cands)]
            import copy

            spec2 = copy.deepcopy(spec)
            for gi_, gl in enumerate(spec2["glyphs"]):
                if gi_ == spec.get("common_glyph"):
                    continue  # the shared glyph is not part of this master's own directory
                for sh in gl:
                    pm = sh["params"][m]
                    # shrink towards the centre of the viewBox: stays inside it (no new clipping), same structure
                    k_ = 0.88
                    pm["x"], pm["y"] = 0.5 + (pm["x"] - 0.5) * k_, 0.5 + (pm["y"] - 0.5) * k_
                    pm["w"], pm["h"] = pm["w"] * k_, pm["h"] * k_
                    pm["pts"] = [(0.5 + (x - 0.5) * k_, 0.5 + (y - 0.5) * k_) for x, y in pm["pts"]]
            time.sleep(0.02)
            for g, n in enumerate(names):
                if g != spec.get("common_glyph"):
                    (mdirs[m] / n).write_text(svg_for(spec2, g, m))
            rcode2, out2 = cli.nanoemoji(["--build_dir", str(root / "build"), "vf.toml"], root, cli.env_for(events=root / "ev2.jsonl"), timeout=600)
            c["reruns_after_master_edit"] = 1
            if rcode2 != 0:
                res["violations"].append(dict(ctx, what=f"re-run after editing master {spec['names'][m]} failed (exit {rcode2})", output=out2[:2000]))
            else:
                vf = TTFont(str(root / "build" / "VF.ttf"), lazy=False)
                colr = vf["COLR"]
                srcs2 = [{"svg": svg_for(spec2, g, m), "codepoints": [0x1F600 + g]} for g in range(len(names))]
                check_master(m, spec["locations"][m], inproc.build(srcs2, scfg), label=f" (after editing master {spec['names'][m]} and re-running in the same build directory)")
        # how variable is it
        nvar = 0
        for paint in ev.base.values():
            stack = [paint]
            while stack:
                p = stack.pop()
                if int(p.Format) % 2 == 1 and int(p.Format) >= 3 and int(p.Format) not in (11,):
                    nvar += 1
                for attr in ("Paint", "SourcePaint", "BackdropPaint"):
                    ch = getattr(p, attr, None)
                    if ch is not None:
                        stack.append(ch)
                if int(p.Format) == 1:
                    stack.extend(ev.layers[p.FirstLayerIndex : p.FirstLayerIndex + p.NumLayers])
        c["variable_paints"] = nvar
        cl = getattr(colr.table, "ClipList", None)
        c["variable_clip_boxes"] = sum(1 for b2 in (cl.clips.values() if cl else []) if int(getattr(b2, "Format", 1)) == 2)
        res["nontrivial"] = True
        res["key"] = common.sha(spec)
        if case["i"] < 2:
            res["sample"] = {"positions": spec["positions"], "default": spec["default"], "master0_glyph0": svg_for(spec, 0, 0)[:600], "variable_paints": nvar}
    except Exception:
        res["error"] = traceback.format_exc()[-2000:]
    finally:
        shutil.rmtree(root, ignore_errors=True)
    return res


def finish(agg):
    c = agg["counters"]
    inc = []
    for k in ("glyph_locations_compared", "interior_boxes_checked", "default_location_checked", "variable_clip_boxes"):
        if c.get(k, 0) == 0:
            inc.append(f"deciding monitor/branch never reached: {k}")
    if c.get("reruns_after_master_edit", 0) == 0:
        inc.append("deciding branch never reached: reruns_after_master_edit")
    for k in ("axes=2", "axes-declared-out-of-tag-order", "same-leaf-dirs", "masters=3"):
        if agg["tags"].get(k, 0) == 0:
            inc.append(f"configuration class never built: {k}")
    return {"inconclusive": inc}
