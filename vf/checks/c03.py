"""C03 — COLRv0 and glyf builds lose only what those formats cannot express."""
import traceback

from vf import common
from vf.checks import c01
from vf.gen import svggen

ID = "C03"
LEVEL = "exploration"
RULE = (
    "case = one font in {glyf, glyf_colr_0, cff_colr_0, cff2_colr_0} from 1-4 generated sources (half of the cases solid-only / "
    "no group opacity, where the full image claim applies; recurrence sets so transformed components appear).  COLRv0: layer "
    "records + CPAL colour and alpha compared layer by layer with the source, base glyph bounds must cover the layers.  Any "
    "source, COLRv0 and glyf: source outlines <-> layer outlines / components / inlined contours matched one-to-one within the "
    "tolerance, leftovers must have zero area.  Non-trivial = glyph with >= 2 outlines or a transformed component."
)
ASSUMPTIONS = ["picosvg-normal source is the reference", "tolerances as C01; TrueType component scale fields add 2^-14 * coordinate"]
N = {"quick": 352, "thorough": 6000}
FORMATS = ("glyf", "glyf_colr_0", "glyf_colr_0", "cff_colr_0", "cff2_colr_0")


def plan(tier, seed):
    return [{"id": f"{seed}-{i}", "i": i} for i in range(N[tier])]


def gen_case(case):
    r = common.rng(ID, case["seed"], case["i"])
    pal = svggen.FontPalette(r)
    cfg = svggen.font_config(r, FORMATS)
    solid_only = r.random() < 0.55
    srcs = []
    meta = {"solid_only": solid_only}
    mode = r.random()
    if mode < 0.06:
        from vf.checks import c06

        meta["mode"] = "grouped-reuse"
        srcs.extend(c06.grouped_reuse_set(r, r.choice([100, 128]), single_copy_glyph=True))
        cfg.pop("transform", None)
        if cfg.get("reuse_tolerance", 0.1) in (-1, 0.0) and r.random() < 0.8:
            cfg["reuse_tolerance"] = 0.1
        meta["solid_only"] = False  # groups: the z-order / image claim does not apply, the placement claim does
        if r.random() < 0.5:
            cfg["color_format"] = "glyf"
    elif mode < 0.13:
        meta["mode"] = "same-body-other-viewbox"
        srcs.extend(svggen.same_body_other_viewbox_set(r, r.randint(2, 4), pal=pal))
        if cfg.get("reuse_tolerance", 0.1) in (-1, 0.0) and r.random() < 0.7:
            cfg["reuse_tolerance"] = 0.1
    elif mode < 0.2:
        meta["mode"] = "grid-recurrence"
        svgs, gcfg, m = svggen.grid_recurrence_set(r, r.randint(2, 3), gradients=not solid_only, pal=pal)
        cfg.update(gcfg)
        cfg.pop("transform", None)
        srcs.extend(svgs)
    elif mode < 0.6:
        meta["mode"] = "random"
        for g in range(r.randint(1, 3)):
            t, m = svggen.svg_source(r, g, pal, gradients=not solid_only, groups=not solid_only)
            srcs.append(t)
    else:
        meta["mode"] = "recurrence"
        svgs, m = svggen.recurrence_set(r, r.randint(2, 4), pal, gradients=not solid_only, same_vb=r.random() < 0.7)
        srcs.extend(svgs)
    seqs = svggen.sequences(r, len(srcs), long_names=False)
    return [{"svg": s, "codepoints": list(q)} for s, q in zip(srcs, seqs)], cfg, meta


def glyph_pieces(font, gs, name):
    """Outline pieces of a glyph: one per component (flattened through its transform), plus its own contours."""
    import numpy as np

    from vf.oracle import geom

    pieces = []
    if "glyf" in font:
        g = font["glyf"][name]
        if g.isComposite():
            for comp in g.components:
                cs, n = geom.flatten_glyph(gs, comp.glyphName, 0.01), 0
                t = getattr(comp, "transform", None)
                M = geom.aff(t[0][0], t[0][1], t[1][0], t[1][1], comp.x, comp.y) if t is not None else geom.translate(comp.x, comp.y)
                R = max([np.abs(np.vstack(cs)).max()] if cs else [0]) + 1
                pieces.append({"contours": [geom.apply(M, c) for c in cs], "sigma": max(1.0, geom.sigma_max(M)), "err": 0.7072 + ((2 ** -14) * R * 2 if t is not None else 0.0), "transformed": t is not None or comp.x != 0 or comp.y != 0, "ref": comp.glyphName})
            return pieces
    cs = geom.flatten_glyph(gs, name, 0.01)
    if cs:
        pieces.append({"contours": cs, "sigma": 1.0, "err": 0.0, "transformed": False, "ref": name})
    return pieces


def run_case(case):
    import numpy as np

    from vf.checks import render_common as rc
    from vf.drive import inproc
    from vf.hooks import contracts
    from vf.oracle import colreval, compare, geom
    from vf.oracle.paintref import Layer, Paint

    sources, cfg, meta = gen_case(case)
    fmt = cfg["color_format"]
    res = {"counters": {}, "maxes": {}, "violations": [], "tags": [fmt, "solid-only" if meta["solid_only"] else "any-fill", meta["mode"]]}
    try:
        norm = [inproc.picosvg_normal(s["svg"], cfg["clip_to_viewbox"]) for s in sources]
    except Exception:
        res["counters"]["picosvg_rejected"] = 1
        return res
    if any(c01.has_empty_path(n) for n in norm):
        res["counters"]["skipped_empty_path_after_clip"] = 1
        return res
    contracts.install()
    contracts.reset()
    try:
        built = inproc.build(sources, cfg, normalised=norm)
    except Exception as e:
        if rc.is_overflow_refusal(e):
            res["counters"]["build_refused_overflow"] = 1
            return res
        if isinstance(e, ValueError) and "already maps to" in str(e) and fmt != "glyf":
            # COLRv0 keeps alpha in the palette entry: one var(--colorN) index used at two opacities is two
            # colours for one index, which the palette contract makes an error (C15) - a legal refusal
            res["counters"]["build_refused_palette_conflict"] = 1
            return res
        res["violations"].append({"what": f"build raised {type(e).__name__}: {str(e)[:300]}", "trace": traceback.format_exc()[-1500:], "config": cfg})
        return res
    font = built.font
    # CFF flavours have no components: a reused (transformed) outline is baked into the charstring, so the
    # placing transform is not visible in the binary; take its scale from the reuse log of this build
    import numpy as _np

    hits = [_np.array([[t[0], t[2]], [t[1], t[3]]]) for t in contracts.LOG["reuse"]]
    baked_sigma = max([1.0] + [float(_np.linalg.svd(h, compute_uv=False)[0]) for h in hits])
    gs = font.getGlyphSet()
    tol = rc.tol_for(built.cfg)
    c = res["counters"]
    nontriv = 0
    for i, inp in enumerate(built.inputs):
        reached = rc.reach(font, inp.codepoints)
        if len(reached) != 1:
            res["violations"].append({"what": "codepoints do not shape to one glyph", "input": i, "reached": reached})
            continue
        name = reached[0]
        adv = font["hmtx"][name][0]
        ref, vb = rc.ref_layers_for(built, i, adv)
        ref = [l for l in ref if l.contours]
        c["glyphs"] = c.get("glyphs", 0) + 1
        if fmt != "glyf":
            for l in ref:  # COLRv0 has no alpha for the foreground colour (index 0xFFFF is not a palette entry)
                if l.paint.kind == "solid" and l.paint.color[0] == "fg":
                    l.paint = Paint("solid", color=l.paint.color, alpha=1.0)
        # ---- candidate pieces
        if fmt == "glyf":
            pieces = glyph_pieces(font, gs, name)
            got_layers = None
        else:
            colr = font["COLR"]
            recs = colr.ColorLayers.get(name, []) if colr.version == 0 else None
            if recs is None:
                res["violations"].append({"what": "COLRv0 requested but COLR version != 0", "glyph": name})
                continue
            pieces = []
            got_layers = []
            ev = colreval.Evaluator(font)
            for rec in recs:
                ps = glyph_pieces(font, gs, rec.name)
                allc = [cc for p in ps for cc in p["contours"]]
                sig = max([p["sigma"] for p in ps] + [1.0])
                err = max([p["err"] for p in ps] + [0.0])
                tr = any(p["transformed"] for p in ps)
                pieces.append({"contours": allc, "sigma": sig, "err": err, "transformed": tr, "ref": rec.name})
                col, a = colreval._col(font, rec.colorID, 1.0)
                got_layers.append(Layer(allc, Paint("solid", color=col, alpha=a), (), sigma=sig, err=err, nseg=20, ref=rec.name, transformed=tr))
        if hits:
            # placing transforms that were decomposed into plain contours (CFF flavours; TrueType components whose
            # scale does not fit F2Dot14) are not visible in the binary: bound their scale by the reuse log
            for p in pieces:
                if not fmt.startswith("glyf") or not p["transformed"]:
                    p["sigma"], p["transformed"] = max(p["sigma"], baked_sigma), True
            if got_layers:
                for l in got_layers:
                    l.sigma, l.transformed = max(l.sigma, baked_sigma), True
        # ---- every source contour exactly once, nothing else visible (contour level: composites may have
        # been decomposed by the compiler, e.g. component scales beyond F2Dot14 or CFF flavours)
        def _vis(cc):  # a contour below one font unit in both directions vanishes when coordinates are rounded
            b = geom.bbox([cc])
            return (b[2] - b[0]) >= 1.0 or (b[3] - b[1]) >= 1.0

        rcs = [(li, rl, cc) for li, rl in enumerate(ref) for cc in rl.contours if _vis(cc)]
        gcs = [(pj, p, cc) for pj, p in enumerate(pieces) for cc in p["contours"]]
        step = max(1.0, built.cfg.upem / 400)
        adj, ratios = [], {}
        for a_, (li, rl, rc_) in enumerate(rcs):
            row = []
            rb = geom.bbox([rc_])
            for b_, (pj, p, gc_) in enumerate(gcs):
                gl = Layer([gc_], None, (), sigma=p["sigma"], err=p["err"], nseg=rl.nseg, transformed=p["transformed"])
                e = tol.eps(gl, rl)
                gb = geom.bbox([gc_])
                if max(abs(rb[k] - gb[k]) for k in range(4)) > e + 1e-9:
                    continue
                H = geom.hausdorff([rc_], [gc_], step=step)
                if H <= e:
                    row.append(b_)
                    ratios[(a_, b_)] = H / e
            adj.append(row)
        m = compare.max_matching(adj, len(gcs))
        used = set(m.values())
        def _f12(bb=None, ref_name=None):
            # F12: a CFF contour spanning more than a Type 2 operand can hold is wrapped by the charstring encoder
            if not fmt.startswith("cff"):
                return None
            if bb is not None and max(bb[2] - bb[0], bb[3] - bb[1]) > 32767:
                return "F12-cff-charstring-delta-overflow"
            if ref_name and rc._cff_wrapped(font, ref_name):
                return "F12-cff-charstring-delta-overflow"
            return None

        for a_, (li, rl, rc_) in enumerate(rcs):
            if a_ not in m:
                res["violations"].append({"mechanism": _f12(geom.bbox([rc_])), "what": "source outline has no counterpart in the glyph", "glyph": name, "layer": li, "source_bbox": geom.bbox([rc_]), "pieces": [geom.bbox([g[2]]) for g in gcs][:8], "format": fmt, "config": cfg})
            else:
                res["maxes"]["max_h_over_eps"] = max(res["maxes"].get("max_h_over_eps", 0), ratios[(a_, m[a_])])
                if gcs[m[a_]][1]["transformed"]:
                    c["transformed_pieces"] = c.get("transformed_pieces", 0) + 1
        for b_, (pj, p, gc_) in enumerate(gcs):
            if b_ in used:
                continue
            if abs(geom.area([gc_])) > 1.0:
                res["violations"].append({"mechanism": _f12(None, p.get("ref")), "what": "glyph contains visible geometry that is in no source", "glyph": name, "piece_bbox": geom.bbox([gc_]), "format": fmt, "config": cfg})
        c["outlines_matched"] = c.get("outlines_matched", 0) + len(used)
        if len(ref) >= 2 or any(p["transformed"] for p in pieces):
            nontriv += 1
        # ---- COLRv0 image claim + base glyph bounds
        if got_layers is not None:
            if meta["solid_only"]:
                pr, st = compare.compare_layers(ref, got_layers, tol)
                for p in pr:
                    p.update({"glyph": name, "config": cfg, "claim": "COLRv0 image (solid-only source)"})
                    if p.get("ref_bbox") and not p.get("mechanism"):
                        p["mechanism"] = _f12(p["ref_bbox"], p.get("got_ref"))
                    res["violations"].append(p)
                c["v0_image_glyphs"] = c.get("v0_image_glyphs", 0) + 1
                c["v0_layers_with_alpha"] = c.get("v0_layers_with_alpha", 0) + sum(1 for l in got_layers if l.paint.alpha < 0.999)
            if got_layers and any(l.contours for l in got_layers):
                from fontTools.pens.boundsPen import ControlBoundsPen

                pen = ControlBoundsPen(gs)
                gs[name].draw(pen)
                base = pen.bounds
                allb = [geom.bbox(l.contours) for l in got_layers if l.contours]
                # outlines that collapsed to a line on the integer grid paint nothing and need no extents
                allb = [b for b in allb if b[2] - b[0] > 1e-6 and b[3] - b[1] > 1e-6]
                if not allb:
                    c["v0_glyphs_with_only_degenerate_layers"] = c.get("v0_glyphs_with_only_degenerate_layers", 0) + 1
                    continue
                un = (min(b[0] for b in allb), min(b[1] for b in allb), max(b[2] for b in allb), max(b[3] for b in allb))
                c["v0_base_bounds_checked"] = c.get("v0_base_bounds_checked", 0) + 1
                smax = max(l.sigma for l in got_layers)
                if base is None or max(base[0] - un[0], base[1] - un[1], un[2] - base[2], un[3] - base[3]) > (0.5 + 0.001 * built.cfg.upem) * smax + 0.5 + max(l.err for l in got_layers) + 0.01:
                    mech = None
                    if fmt.startswith("cff") and (max(un[2] - un[0], un[3] - un[1]) > 32000 or rc._cff_wrapped(font, name) or any(rc._cff_wrapped(font, l.ref) for l in got_layers)):
                        mech = "F12-cff-charstring-delta-overflow"
                    res["violations"].append({"what": "COLRv0 base glyph bounds do not cover its layers", "glyph": name, "base": base, "layers_union": un, "config": cfg, "mechanism": mech})
    for v in contracts.violations():
        res["violations"].append(v)
    c.update(contracts.counters())
    res["nontrivial"] = nontriv > 0
    res["key"] = common.sha([sources, cfg])
    if case["i"] < 2:
        res["sample"] = {"config": cfg, "sources": [s["svg"][:400] for s in sources][:2], "meta": meta}
    return res


def finish(agg):
    c = agg["counters"]
    inc = []
    for k in ("outlines_matched", "transformed_pieces", "v0_image_glyphs", "v0_layers_with_alpha", "v0_base_bounds_checked"):
        if c.get(k, 0) == 0:
            inc.append(f"deciding monitor/branch never reached: {k}")
    for fmt in FORMATS:
        if agg["tags"].get(fmt, 0) == 0:
            inc.append(f"format never built: {fmt}")
    return {"inconclusive": inc}
