"""C12 — maximum_color adds colour tables without altering the font."""
import io
import os
import shutil
import traceback

from vf import common
from vf.gen import svggen

ID = "C12"
LEVEL = "exploration"
RULE = (
    "case = one input font x flags.  Inputs: fonts nanoemoji itself built in-process from generated sources (COLRv1, COLRv0, "
    "picosvg; sequences so GSUB exists) and third-party-style synthetic COLRv1 fonts from the paint-graph generator (no space "
    "glyph, kerning and mark lookups compiled by feaLib, 1-3 CPAL palettes, glyph names).  Flags: --bitmaps, --colr_version "
    "0/1, --keep_glyph_names.  The real maximum_color CLI runs under ninja; in its Font.ttf: original colour table, cmap, "
    "advances, pre-existing outlines and layout meaning (C11 extractor) must be name-keyed equal to the input, the "
    "complementary table (and CBDT/CBLC) must be present, for every colour glyph reached from the same codepoints the COLR "
    "display list must agree with the SVG display list, every bitmap must be the PNG the build made for that glyph, post "
    "format must follow --keep_glyph_names, and the C07 structural validator must pass.  Non-trivial = every case."
)
ASSUMPTIONS = ["COLR and SVG evaluators of C01/C02", "F9 (repeat interval) applies here too and is classified by the same predicate"]
N = {"quick": 48, "thorough": 480}
TIMEOUT = {"quick": 1500, "thorough": 6 * 3600}
CASE_TIMEOUT = 900


def plan(tier, seed):
    return [{"id": f"{seed}-{i}", "i": i} for i in range(N[tier])]


def make_input(r, kind, solid_only=False, with_cpal=False, want_gap=False, minimal=False, flavour=None, many_groups=False, force_zero_advance=False):
    """-> (font bytes, description)"""
    from vf.drive import inproc

    if kind in ("colr1", "colr0", "picosvg"):
        fmt = {"colr1": "glyf_colr_1", "colr0": "glyf_colr_0", "picosvg": "picosvg"}[kind]
        if kind != "picosvg" and flavour:
            fmt = fmt.replace("glyf", flavour)  # CFF / CFF2 outlines: glue_together reorders glyphs of an OTF
        pal = svggen.FontPalette(r)
        srcs = []
        if many_groups or want_gap or r.random() < 0.5:
            if many_groups or want_gap or r.random() < 0.4:
                # several independent sharing groups of 1-3 glyphs: several multi-glyph SVG documents at odd and even
                # glyph ids, some of them across id 8 or 16
                srcs = []
                sizes = [1, 2, 2, 2, 2] if many_groups else [r.choice([1, 2, 2, 3]) for _ in range(r.randint(3, 5))]
                for size in sizes:
                    svgs, _ = svggen.recurrence_set(r, size, None, same_vb=True, gradients=kind != "colr0" and not solid_only, extra_random=False)
                    srcs.extend(svgs)
            else:
                svgs, _ = svggen.recurrence_set(r, r.randint(2, 3), None, same_vb=True, gradients=kind != "colr0" and not solid_only)
                srcs = svgs
        else:
            plain = kind == "colr0" or solid_only
            srcs = [svggen.svg_source(r, g, None, gradients=not plain, groups=not plain, vb=(0, 0, r.choice([100, 128, 150]), r.choice([100, 128])))[0] for g in range(r.randint(1, 3))]
        srcs = [s.replace("currentColor", "#223344") for s in srcs]
        gap = False
        if len(srcs) >= 2 and (want_gap or r.random() < 0.35):
            # a source that paints nothing, between two that do: it gets a glyph id but no colour record and no
            # bitmap, so the colour glyphs are no longer one run of consecutive ids
            blank = '<svg xmlns="http://www.w3.org/2000/svg" viewBox="0 0 100 100"></svg>'
            if len(srcs) >= 4 and r.random() < 0.7:
                # two blanks: the colour glyphs form three runs, the first of them two or more glyphs long
                k1 = r.randint(2, len(srcs) - 2)
                srcs.insert(k1, blank)
                srcs.insert(r.randint(k1 + 2, len(srcs) - 1), blank)
            else:
                srcs.insert(r.randint(1, len(srcs) - 1), blank)
            gap = True
        seqs = svggen.sequences(r, len(srcs), long_names=False)
        if gap:
            seqs = [tuple(q[:1]) for q in seqs]  # single codepoints: glyph order follows the source order
            seqs = sorted(set(seqs))
            while len(seqs) < len(srcs):
                seqs.append((0xF0000 + len(seqs),))
            seqs = sorted(seqs)
            if want_gap:
                # code points whose glyph names sort like the sources do (u1F600, u1F601, ...): OT-SVG builds order
                # their glyphs by name, so the blanks stay between the painted glyphs
                seqs = [(0x1F600 + k,) for k in range(len(srcs))]
        cfg = svggen.font_config(r, (fmt,), user_transform=False, small_upem=False)
        cfg["keep_glyph_names"] = r.random() < 0.5
        cfg["clip_to_viewbox"] = True
        cfg["width"] = r.choice([0, cfg["ascender"] - cfg["descender"]])  # bitmaps of <= 255 px stay representable
        items = [{"svg": s, "codepoints": list(q)} for s, q in zip(srcs, seqs)]
        notdef = False
        if want_gap and kind in ("colr1", "colr0"):
            # a coloured .notdef (as in Nabla): glyph 0 carries colour and cannot be moved next to the other colour
            # glyphs, so the colour glyph ids stay split into two runs whatever the glue step reorders
            items.insert(0, {"svg": '<svg xmlns="http://www.w3.org/2000/svg" viewBox="0 0 100 100"><rect x="10" y="10" width="70" height="80" fill="#102030"/><rect x="30" y="30" width="20" height="20" fill="#d02020"/></svg>', "codepoints": [], "glyph_name": ".notdef", "name": "notdef.svg"})
            notdef = True
        b = inproc.build(items, cfg)
        data = b.data
        if with_cpal:
            # an OT-SVG font that already carries several CPAL palettes (var(--colorN) palettes of a third party)
            from fontTools.colorLib.builder import buildCPAL
            from fontTools.ttLib import TTFont

            f = TTFont(io.BytesIO(data))
            f["CPAL"] = buildCPAL([[(r.random(), r.random(), r.random(), 1.0) for _ in range(4)] for _ in range(3)])
            bio = io.BytesIO()
            f.save(bio)
            data = bio.getvalue()
        return data, {"kind": kind + ("+cpal" if with_cpal else ""), "config": cfg, "sequences": [list(q) for q in seqs], "blank_glyph_between_colour_glyphs": gap, "coloured_notdef": notdef}
    # third-party style COLRv1
    from fontTools.colorLib.builder import buildCOLR, buildCPAL
    from fontTools.feaLib.builder import addOpenTypeFeaturesFromString
    from fontTools.ttLib.tables.otTables import PaintFormat as PF

    from vf.checks import c13

    npal = r.choice([1, 2, 3])
    zero_adv = r.random() < 0.35 or force_zero_advance
    asc_seed = r.random()
    if minimal:
        # a colour font whose colour glyphs paint their own outlines and that has no other glyph besides .notdef
        # (and, half the time, a space): nothing to spare between .notdef and the first colour glyph
        from fontTools.fontBuilder import FontBuilder

        space = r.random() < 0.5
        order = [".notdef"] + (["space"] if space else []) + ["A", "B"]
        fb = FontBuilder(1000, isTTF=True)
        fb.setupGlyphOrder(order)
        cm = {0x41: "A", 0x42: "B"}
        if space:
            cm[0x20] = "space"
        fb.setupCharacterMap(cm)
        pts = {}
        for nm in ("A", "B"):
            cx, cy, n, sz = r.randint(300, 700), r.randint(100, 500), r.randint(3, 6), r.randint(100, 250)
            pts[nm] = [(int(cx + sz * c13.math.cos(2 * c13.math.pi * k / n + 0.3)), int(cy + sz * c13.math.sin(2 * c13.math.pi * k / n + 0.3))) for k in range(n)]
        gl = {".notdef": c13.poly([(0, 0), (0, 10), (10, 10), (10, 0)]), "A": c13.poly(pts["A"]), "B": c13.poly(pts["B"])}
        if space:
            from fontTools.pens.ttGlyphPen import TTGlyphPen

            gl["space"] = TTGlyphPen(None).glyph()
        fb.setupGlyf(gl)
        fb.setupHorizontalMetrics({n: (1000, 0) for n in order})
        asc, desc = r.choice([(800, -200), (950, -250)])
        fb.setupHorizontalHeader(ascent=asc, descent=desc)
        fb.setupOS2(sTypoAscender=asc, sTypoDescender=desc)
        fb.setupNameTable({"familyName": "T", "styleName": "R"})
        fb.setupPost()
        font = fb.font
        g = lambda nm: {"Format": PF.PaintGlyph, "Glyph": nm, "Paint": c13.fillp(r, pts[nm], PF)}
        font["COLR"] = buildCOLR({"A": g("A"), "B": {"Format": PF.PaintColrLayers, "Layers": [g("B"), g("A")]} if r.random() < 0.5 else g("B")}, version=1)
        font["CPAL"] = buildCPAL([[(1, 0, 0, 1), (0, 0, 1, 1), (0, 0.6, 0, 1), (1, 1, 0, 0.5), (0, 0, 0, 1)]])
        bio = io.BytesIO()
        font.save(bio)
        return bio.getvalue(), {"kind": "thirdparty-colr1-minimal", "space_glyph": space, "non_colour_glyphs": len(order) - 2, "sequences": [[0x41], [0x42]]}
    hhea_differs = common.rng(ID, "hhea", npal, zero_adv, asc_seed).random() < 0.5
    font, shapes, (asc, desc) = c13.mkfont(r, npal, zero_advance=zero_adv, hhea_differs=hhea_differs)
    stats = {}
    gA = {"Format": PF.PaintColrLayers, "Layers": [c13.graph(r, shapes, 2, False, PF, stats) for _ in range(r.randint(1, 2))]}
    gB = {"Format": PF.PaintColrLayers, "Layers": [c13.graph(r, shapes, 2, True, PF, stats) for _ in range(r.randint(1, 2))]}
    font["COLR"] = buildCOLR({"A": gA, "B": gB}, version=1)
    pals = [[(1, 0, 0, 1), (0, 0, 1, 1), (0, 0.6, 0, 1), (1, 1, 0, 0.5), (0, 0, 0, 1)]]
    for p in range(1, npal):
        pals.append([(r.random(), r.random(), r.random(), 1.0) for _ in range(5)])
    font["CPAL"] = buildCPAL(pals)
    fea = "languagesystem DFLT dflt;\nfeature kern { pos A B -40; pos B A 25; pos s0 s1 -5; } kern;\nfeature ss01 { sub s2 by s3; } ss01;\n"
    addOpenTypeFeaturesFromString(font, fea)
    bio = io.BytesIO()
    font.save(bio)
    return bio.getvalue(), {"kind": "thirdparty-colr1", "palettes": npal, "zero_advance_colour_glyph": zero_adv, "hhea_differs_from_typo": hhea_differs, "sequences": [[0x41], [0x42]]}


def name_keyed_facts(font):
    from vf.checks.c11 import other_facts

    return other_facts(font)


def run_case(case):
    from fontTools.ttLib import TTFont

    from vf.checks import render_common as rc
    from vf.drive import cli, inproc
    from vf.oracle import colreval, compare, layout, structure

    inproc.init()
    r = common.rng(ID, case["seed"], case["i"])
    # (an OT-SVG input that already has a CPAL table is outside the stated input space: _copy_colr then replaces
    # palette 0 by one of another length and the CPAL compile fails explicitly - see DESIGN section 4, O4)
    kind = ["colr1", "picosvg", "thirdparty", "colr0"][case["i"] % 4]
    with_cpal = kind.endswith("+cpal")
    kind = kind.split("+")[0]
    flags = []
    bitmaps = r.random() < 0.4
    keep = r.random() < 0.5
    colr_version = r.choice([0, 1])
    if case["i"] % 8 in (0, 3, 5):
        bitmaps = True  # (make_input below gives these cases a blank glyph between colour glyphs when it can)
    if bitmaps:
        flags.append("--bitmaps")
    if keep:
        flags.append("--keep_glyph_names")
    if kind == "picosvg":
        flags += ["--colr_version", str(colr_version)]
    res = {"counters": {}, "maxes": {}, "violations": [], "tags": [kind] + flags}
    c = res["counters"]
    try:
        data, desc = make_input(r, kind, solid_only=(kind == "picosvg" and colr_version == 0), with_cpal=with_cpal, want_gap=case["i"] % 8 in (0, 3, 5), minimal=kind == "thirdparty" and case["i"] % 16 in (2, 10), flavour={4: "cff", 7: "cff2", 12: "cff2", 15: "cff"}.get(case["i"] % 16), many_groups=case["i"] % 12 in (4, 11), force_zero_advance=case["i"] % 16 in (6, 14))
        if desc.get("config", {}).get("color_format", "").startswith("cff"):
            res["tags"].append("cff-outlines")
            c["inputs_with_cff_outlines"] = 1
        if desc["kind"].endswith("minimal"):
            res["tags"].append("no-spare-glyph")
            c["inputs_without_spare_glyphs"] = 1
        if with_cpal:
            res["tags"].append("svg-with-cpal")
    except Exception as e:
        c["input_not_buildable"] = 1
        return res
    root = common.mkscratch("c12-")
    try:
        inp = root / "Input.ttf"
        inp.write_bytes(data)
        b = root / "build"
        rcode, out = cli.maximum_color(flags + ["--build_dir", str(b), str(inp)], root, cli.env_for(events=root / "ev.jsonl"), timeout=600)
        c["runs"] = 1
        ctx = {"input": desc, "flags": flags}
        if rcode != 0:
            if bitmaps and ("does not fit in format b" in out or "'b' format requires" in out or "too big for CBDT" in out or "out of bounds" in out):
                c["refused_bitmap_metrics"] = 1  # CBDT's 8-bit metrics cannot hold this font's line metrics at 128 px: explicit refusal
                return res
            v = dict(ctx, what=f"maximum_color failed (exit {rcode})", output=out[:2500])
            if bitmaps and desc.get("zero_advance_colour_glyph") and "'H' format requires" in out and "_h_m_t_x" in out:
                # F29: the glyph region of a zero-advance colour glyph has zero width; resvg then sizes the bitmap by
                # the artwork alone and the donor's advance (em x px width / px height) can exceed 65535
                v["mechanism"] = "F29-bitmaps-of-zero-advance-colour-glyph"
            if "pop from empty list" in out and "_copy_svg" in out and desc.get("non_colour_glyphs", 9) < 2:
                # F26: the donor built from the generated SVGs always has .notdef and .space in front of its colour glyphs
                v["mechanism"] = "F26-copy-svg-needs-two-spare-glyphs"
            res["violations"].append(v)
            return res
        outp = b / "Font.ttf"
        before = TTFont(io.BytesIO(data), lazy=False)
        after = TTFont(str(outp), lazy=False)
        if not keep:
            # names were stripped at the very end: recover, through the last named work-in-progress font of the build
            # (same glyph order as the output) and the frozen-names copy of the input (same order as the input),
            # which output glyph each input glyph became; then look at the output under the input's names
            frozen = TTFont(str(b / "Input.keep_glyph_names.ttf"))
            wips = sorted(b.glob("Input.keep_glyph_names*.ttf"), key=lambda p: (str(p).count(".added_"), len(str(p))))
            wip = TTFont(str(wips[-1]))
            worder = wip.getGlyphOrder()
            if len(worder) != len(after.getGlyphOrder()):
                res["error"] = "cannot map stripped glyph names: work-in-progress font has a different glyph count"
                return res
            f2in = dict(zip(frozen.getGlyphOrder(), before.getGlyphOrder()))
            renamed = [f2in.get(n, "new:" + n) for n in worder]
            after = TTFont(str(outp))
            after.setGlyphOrder(renamed)
            from nanoemoji.util import load_fully  # noqa

            for tag in after.keys():
                after[tag]
            after.ensureDecompiled()
        # ---- structure
        probs, facts = structure.validate(outp.read_bytes(), keep_glyph_names=keep)
        for p in probs:
            res["violations"].append(dict(ctx, what="structure: " + p))
        # ---- tables present
        want = {"COLR", "SVG "} | ({"CBDT", "CBLC"} if bitmaps else set())
        if bitmaps and desc.get("coloured_notdef") and "CBDT" in after:
            g0 = after.getGlyphOrder()[0]
            n0 = sum(1 for sd in after["CBDT"].strikeData if g0 in sd)
            c["coloured_notdef_bitmaps_checked"] = 1
            if n0 != 1:
                res["violations"].append(dict(ctx, what=f"the coloured .notdef has {n0} bitmaps in the output (COLR and SVG paint it)"))
        if "CBLC" in after:
            runs = [len(getattr(ist, "names", [])) for st in after["CBLC"].strikes for ist in st.indexSubTables]
            if len(runs) >= 3:
                c["outputs_with_3_or_more_bitmap_runs"] = c.get("outputs_with_3_or_more_bitmap_runs", 0) + 1
                if runs[0] >= 2:
                    c["outputs_with_3_runs_first_run_2plus"] = c.get("outputs_with_3_runs_first_run_2plus", 0) + 1
        if "SVG " in after and "COLR" in before:
            for _doc, g0, g1 in after["SVG "].docList:
                if g1 > g0:
                    c["multi_glyph_svg_docs"] = c.get("multi_glyph_svg_docs", 0) + 1
                    if g1 - g0 < 4 and g0 // 8 != g1 // 8:
                        c["small_svg_docs_across_a_multiple_of_8"] = c.get("small_svg_docs_across_a_multiple_of_8", 0) + 1
        missing = want - set(after.keys())
        if missing:
            res["violations"].append(dict(ctx, what=f"tables missing from the output: {sorted(missing)}"))
            return res
        # ---- name-keyed preservation.  Glyph names may be regenerated when the input had none: map by glyph id
        # through the input order where names were absent (post format 3) - maximum_color freezes names first.
        names_before = before.getGlyphOrder()
        bf, af = name_keyed_facts(before), name_keyed_facts(after)
        cm_b = dict(bf["cmap"])
        cm_a = dict(af["cmap"])
        if set(cm_b) != set(cm_a):
            res["violations"].append(dict(ctx, what="character map changed: codepoints differ", only_before=sorted(set(cm_b) - set(cm_a))[:5], only_after=sorted(set(cm_a) - set(cm_b))[:5]))
        # compare per codepoint: advance and outline of the glyph each codepoint maps to
        hb, ha = dict(bf["hmtx"]), dict(af["hmtx"])
        ob, oa = dict(bf["outlines"]), dict(af["outlines"])
        for cp in sorted(set(cm_b) & set(cm_a)):
            gb, ga = cm_b[cp], cm_a[cp]
            if hb[gb][0] != ha[ga][0]:
                res["violations"].append(dict(ctx, what=f"advance of U+{cp:04X} changed: {hb[gb][0]} -> {ha[ga][0]}"))
        # glyphs that keep their name (names are frozen when present, or post had them): outlines and advances
        kept_names = [g for g in names_before if g in ha]
        if True:
            lost = [g for g in names_before if g not in ha]
            if lost:
                res["violations"].append(dict(ctx, what=f"glyphs of the input are missing from the output: {lost[:6]}"))
            for g in kept_names:
                if hb[g][0] != ha[g][0]:
                    res["violations"].append(dict(ctx, what=f"advance of glyph {g} changed: {hb[g][0]} -> {ha[g][0]}"))
                if ob[g] != oa[g] and ob[g]:
                    res["violations"].append(dict(ctx, what=f"outline of pre-existing glyph {g} changed"))
            mb, _ = layout.layout_meaning(before)
            ma, _ = layout.layout_meaning(after)
            for d in layout.diff_meaning(mb, ma)[:4]:
                res["violations"].append(dict(ctx, what="layout: " + d))
            c["layout_compared"] = 1
        for p in layout.coverage_order_problems(after)[:3]:
            res["violations"].append(dict(ctx, what="coverage order in the output: " + p))
        # ---- original colour table preserved
        if "COLR" in before:
            evb, eva = colreval.Evaluator(before), colreval.Evaluator(after)
            gb_ = evb.color_glyphs()
            for gname in gb_:
                gid = before.getGlyphID(gname)
                aname = gname
                if not eva.has_glyph(aname):
                    res["violations"].append(dict(ctx, what=f"colour glyph {gname} has no COLR record in the output"))
                    continue
                try:
                    lb, la = evb.display_list(gname), eva.display_list(aname)
                except colreval.Unsupported:
                    continue
                tol = compare.Tol(before["head"].unitsPerEm, output="colr")
                pr, st = compare.compare_layers(lb, la, tol, check_palette=False)
                for p in pr:
                    p["what"] = "original COLR glyph changed: " + p["what"]
                    p.update(ctx)
                    res["violations"].append(p)
            if len(before["CPAL"].palettes) > 1 and len(after["CPAL"].palettes) != len(before["CPAL"].palettes):
                res["violations"].append(dict(ctx, what="CPAL palettes were dropped"))
            elif len(before["CPAL"].palettes) > 1:
                for pi in range(1, len(before["CPAL"].palettes)):
                    if [(x.red, x.green, x.blue, x.alpha) for x in before["CPAL"].palettes[pi]] != [(x.red, x.green, x.blue, x.alpha) for x in after["CPAL"].palettes[pi]]:
                        res["violations"].append(dict(ctx, what=f"CPAL palette {pi} was altered"))
                c["multi_palette_inputs"] = 1
        if "COLR" not in before and "CPAL" in before:
            pb, pa = before["CPAL"].palettes, after["CPAL"].palettes
            c["svg_inputs_with_cpal"] = 1
            if len(pa) != len(pb):
                res["violations"].append(dict(ctx, what=f"the input's {len(pb)} CPAL palettes became {len(pa)}"))
            else:
                for pi in range(1, len(pb)):
                    if [(x.red, x.green, x.blue, x.alpha) for x in pb[pi]] != [(x.red, x.green, x.blue, x.alpha) for x in pa[pi]][: len(pb[pi])]:
                        res["violations"].append(dict(ctx, what=f"CPAL palette {pi} of the input was altered"))
        # ---- all colour tables paint the same picture for the glyph reached from the same codepoints
        eva = colreval.Evaluator(after)
        upem = after["head"].unitsPerEm
        for q in desc["sequences"]:
            reached_b = rc.reach(before, q)
            reached_a = rc.reach(after, q)
            if len(reached_b) != 1:
                continue
            if len(reached_a) != 1:
                res["violations"].append(dict(ctx, what="sequence no longer shapes to one glyph", sequence=q, reached=reached_a))
                continue
            name = reached_a[0]
            gid = after.getGlyphID(name)
            c["colour_glyphs"] = c.get("colour_glyphs", 0) + 1
            try:
                lc = [l for l in eva.display_list(name) if l.contours] if eva.has_glyph(name) else []
            except colreval.Unsupported as e:
                c["evaluator_unsupported"] = c.get("evaluator_unsupported", 0) + 1
                continue
            probs2 = []
            ls, text = rc.svg_glyph_layers(after, gid, probs2, {"glyph": name})
            for p in probs2:
                if lc:
                    res["violations"].append(dict(ctx, **p))
            if ls is None:
                continue
            ls = [l for l in ls if l.contours]
            tol = compare.Tol(upem, output="svg", tau_seg=0.15 * 1.0)
            pr, st = compare.compare_layers(lc, ls, tol, check_palette=False)
            for p in pr:
                p["what"] = "COLR and SVG of the output disagree: " + p["what"]
                p.update(ctx)
                p["glyph"] = name
                if p.get("hausdorff") is not None and p.get("layer", 99) < len(ls):
                    e_svg = getattr(ls[p["layer"]], "err_svg", 0.0)
                    if p["hausdorff"] <= p["eps_out"] + e_svg:
                        p["mechanism"] = "F8-svg-transform-3-decimals"
                res["violations"].append(p)
            c["layers_compared"] = c.get("layers_compared", 0) + len(lc)
            for k in ("max_h_over_eps", "max_colour_excess"):
                res["maxes"][k] = max(res["maxes"].get(k, 0.0), st[k])
            # ---- bitmaps
            if bitmaps:
                datas = [sd[name].imageData for sd in after["CBDT"].strikeData if name in sd]
                if lc and len(datas) != 1:
                    res["violations"].append(dict(ctx, what=f"colour glyph {name} has {len(datas)} bitmaps"))
                elif datas:
                    png = b / "bitmap" / f"{gid:05d}.png"
                    cands = list((b / "bitmap").glob("*.png"))
                    gids_named = {p.stem for p in cands}
                    match = [p.name for p in cands if p.read_bytes() == bytes(datas[0])]
                    c["bitmaps_checked"] = c.get("bitmaps_checked", 0) + 1
                    if not match:
                        res["violations"].append(dict(ctx, what=f"bitmap stored for {name} is none of the PNGs the build made", made=sorted(gids_named)[:6]))
                    elif bytes(datas[0])[:8] != b"\x89PNG\r\n\x1a\n":
                        res["violations"].append(dict(ctx, what="stored bitmap is not a PNG"))
                    else:
                        # the PNG made for this glyph is named by the glyph id the glyph had in the frozen-names input
                        src_gid = before.getGlyphID(reached_b[0])
                        if f"{src_gid:05d}.png" not in match:
                            res["violations"].append(dict(ctx, what=f"glyph {name} (input gid {src_gid}) stores the PNG {match}, not {src_gid:05d}.png"))
        res["nontrivial"] = True
        res["key"] = common.sha([desc, flags])
        if case["i"] < 2:
            res["sample"] = {"input": desc, "flags": flags, "output_tables": sorted(after.keys())}
    except Exception:
        res["error"] = traceback.format_exc()[-2000:]
    finally:
        if os.environ.get("VERIF_KEEP"):
            shutil.copytree(root, os.path.join(os.environ["VERIF_KEEP"], case["id"]), dirs_exist_ok=True)
        shutil.rmtree(root, ignore_errors=True)
    return res


def finish(agg):
    c = agg["counters"]
    t = agg["tags"]
    inc = []
    for k in ("colr1", "colr0", "picosvg", "thirdparty", "--bitmaps", "--keep_glyph_names"):
        if t.get(k, 0) == 0:
            inc.append(f"class never exercised: {k}")
    for k in ("colour_glyphs", "layers_compared", "layout_compared"):
        if c.get(k, 0) == 0:
            inc.append(f"deciding monitor never reached: {k}")
    return {"inconclusive": inc}
