"""C08 — The build is a function of its inputs: output bytes are deterministic."""
import json
import os
import shutil
import subprocess
import sys
import traceback
from pathlib import Path

from vf import common
from vf.gen import svggen

ID = "C08"
LEVEL = "exploration"
RULE = (
    "CLI class = one (colour format, source set); it is built 6 times by the real nanoemoji CLI under ninja with: permuted / "
    "reversed argument order, sources given as arguments, as a glob in the TOML and as an explicit shuffled list, "
    "PYTHONHASHSEED in {0, 1, 12345, random}, ninja -j1 / -j4 / -j16 with random per-step delays injected by the shims (the "
    "distinct step completion orders actually observed are counted from the event logs), build directories of different "
    "depth with spaces in the path and through a symbolic link, different working directories, relative and absolute source paths.  sha256 of the font "
    "(and of the glyph map and feature file) must be equal inside a class.  Multi-configuration classes: 2-3 configurations in one invocation (several edges of every ninja rule) under -j1/-j8/-j16 with delays.  In-process multiplier: the same _generate_color_font "
    "inputs (C01/C02/C03 generators + shared outlines whose every use has its own fill and opacity) built in fresh interpreters under 4 hash seeds.  Non-trivial = class with >= 3 sources or shared shapes; "
    "distinct = hash of the class inputs."
)
ASSUMPTIONS = ["SOURCE_DATE_EPOCH fixed by the harness", "ninja's ready queue cannot be permuted arbitrarily: schedules are varied by -j and injected delays only", "parts-merged.json is excluded (does not feed the font)"]
N_CLI = {"quick": 16, "thorough": 160}
N_INPROC = {"quick": 64, "thorough": 800}
FORMATS_Q = ["glyf_colr_1", "picosvg", "cbdt", "glyf_colr_1", "picosvg", "untouchedsvg", "glyf_colr_0", "sbix"]
TIMEOUT = {"quick": 1500, "thorough": 6 * 3600}
CASE_TIMEOUT = 900


N_MULTI = {"quick": 3, "thorough": 24}


def run_multi(case):
    """Several configurations built in one invocation (one ninja graph with several edges of every rule) under
    different degrees of parallelism and injected delays: every font must come out byte-identical."""
    from vf.drive import cli

    r = common.rng(ID, "multi", case["seed"], case["i"])
    fmt = r.choice(["glyf_colr_1", "picosvg", "untouchedsvg", "glyf_colr_0"])
    res = {"counters": {}, "violations": [], "tags": ["multi-config", fmt]}
    c = res["counters"]
    root = common.mkscratch("c08m-")
    try:
        nconf = r.randint(2, 3)
        src = root / "src"
        tomls = []
        for k in range(nconf):
            srcs = source_set(r, fmt)
            sub = f"set{k}"
            for s_ in srcs:
                s_["name"] = f"{sub}/" + s_["name"]
            cli.write_sources(src, srcs)
            (src / f"c{k}.toml").write_text(cli.toml_text({"color_format": fmt, "output_file": f"F{k}.ttf", "family": f"Multi {k}"}, srcs=[s_["name"] for s_ in srcs]))
            tomls.append(f"c{k}.toml")
        hashes, orders = [], set()
        for vi, (j, delay, hs) in enumerate(((1, None, "0"), (16, 200, "0"), (8, 350, "1"), (16, 80, "7"))):
            ev = root / f"ev{vi}.jsonl"
            b = root / f"b{vi}"
            rc_, out = cli.nanoemoji(["--build_dir", str(b)] + tomls, src, cli.env_for(events=ev, delay_ms=delay, delay_seed=case["i"] * 10 + vi, ninja_j=j, hashseed=hs), timeout=400)
            c["cli_builds"] = c.get("cli_builds", 0) + 1
            if rc_ != 0:
                hashes.append((f"-j{j}", None, out[-800:]))
                continue
            hashes.append((f"-j{j}", tuple(cli.sha256(b / f"F{k}.ttf") for k in range(nconf)), ""))
            orders.add(cli.completion_order(cli.events(ev)))
        ok = [h for h in hashes if h[1]]
        if ok and len(ok) != len(hashes):
            bad = [h for h in hashes if not h[1]][0]
            res["violations"].append({"what": f"the same configurations build under {ok[0][0]} and fail under {bad[0]}", "format": fmt, "output": bad[2]})
        elif ok and len({h[1] for h in ok}) != 1:
            res["violations"].append({"what": "fonts of a multi-configuration invocation depend on the ninja schedule (-j / step timing)", "format": fmt, "outcomes": [(h[0], h[1]) for h in hashes]})
        elif not ok:
            c["classes_not_buildable_in_any_variant"] = 1
        c["distinct_completion_orders"] = len(orders)
        c["classes"] = 1
        c["multi_config_classes"] = 1
        res["nontrivial"] = True
        res["key"] = common.sha([fmt, tomls, case["i"]])
        res["orders"] = [list(o) for o in list(orders)[:2]]
    finally:
        shutil.rmtree(root, ignore_errors=True)
    return res


def plan(tier, seed):
    cases = [{"id": f"{seed}-cli{i}", "kind": "cli", "i": i} for i in range(N_CLI[tier])]
    cases += [{"id": f"{seed}-multi{i}", "kind": "multi", "i": i} for i in range(N_MULTI[tier])]
    cases += [{"id": f"{seed}-ip{i}", "kind": "inproc", "i": i} for i in range(N_INPROC[tier])]
    return cases


def source_set(r, fmt):
    pal = svggen.FontPalette(r)
    mode = r.random()
    if mode < 0.6:
        svgs, _ = svggen.recurrence_set(r, r.randint(3, 6), pal, same_vb=r.random() < 0.7)
    else:
        svgs = [svggen.svg_source(r, g, pal)[0] for g in range(r.randint(2, 5))]
    if fmt.startswith("untouched") or fmt in ("cbdt", "sbix"):
        svgs = [s.replace("currentColor", "#445566") for s in svgs]
    seqs = svggen.sequences(r, len(svgs), long_names=True)
    if r.random() < 0.5 and seqs:
        # one sequence long enough that its glyph name must be replaced by a digest
        seqs[-1] = tuple(r.randint(0x1F300, 0x1FAFF) for _ in range(r.randint(12, 14)))
    out = []
    for i, (s, q) in enumerate(zip(svgs, seqs)):
        from vf.drive import inproc

        out.append({"name": inproc.filename_for(q, i % 2), "svg": s, "codepoints": list(q)})
    return out


def run_cli(case):
    from vf.drive import cli

    r = common.rng(ID, "cli", case["seed"], case["i"])
    fmt = FORMATS_Q[case["i"] % len(FORMATS_Q)]
    srcs = source_set(r, fmt)
    res = {"counters": {}, "violations": [], "tags": [fmt]}
    c = res["counters"]
    root = common.mkscratch("c08-")
    orders = set()
    hashes = []
    failed = []
    try:
        src_dir = root / "src"
        two_dirs = case["i"] % 2 == 1
        if two_dirs:
            # the same files spread over two directories, so that relative spellings sort differently from absolute ones
            # (directory "a" gets the names that sort last)
            ordered = sorted(srcs, key=lambda s: s["name"])
            for k, s_ in enumerate(ordered):
                s_["name"] = ("b/" if k < (len(ordered) + 1) // 2 else "a/") + s_["name"]
            res["tags"].append("two-source-dirs")
        if two_dirs and case["i"] % 8 == 7 and len(srcs) >= 2:
            # an ambiguous class: one file name present in both directories with different content.  Whatever the build
            # does with it (today: refuse), it must do the same for every spelling and order of the arguments
            a_files = [s_ for s_ in srcs if s_["name"].startswith("a/")]
            b_files = [s_ for s_ in srcs if s_["name"].startswith("b/")]
            if a_files and b_files:
                srcs.append({"name": "b/" + a_files[0]["name"][2:], "svg": b_files[0]["svg"], "codepoints": a_files[0]["codepoints"]})
                res["tags"].append("same-name-in-two-dirs")
        cli.write_sources(src_dir, srcs)
        names = sorted(s["name"] for s in srcs)
        base_flags = ["--color_format", fmt, "--family", "Det Test", "--output_file", "Font.ttf"] + (["--keep_glyph_names"] if case["i"] % 3 == 0 else [])
        if fmt in ("cbdt", "sbix"):
            base_flags += ["--bitmap_resolution", "32"]
        variants = []
        shuffled = names[:]
        r.shuffle(shuffled)
        rnd_seed = str(r.randint(2, 4_000_000_000))
        variants.append(dict(label="sorted-args j1", args=names, cwd=src_dir, bdir=root / "b0", hs="0", j=1, delay=None))
        variants.append(dict(label="reversed-args j16 delays hashseed1", args=names[::-1], cwd=src_dir, bdir=root / "b1", hs="1", j=16, delay=150))
        variants.append(dict(label="shuffled absolute paths, other cwd, build dir with spaces reached through a symlink, random hashseed", args=[str(src_dir / n) for n in shuffled], cwd=root, bdir=root / "deep dir" / "with space" / "b2", hs=rnd_seed, j=4, delay=250))
        toml_glob = root / "glob.toml"
        toml_glob.write_text(cli.toml_text({}, srcs=["src/a/*.svg", "src/b/*.svg"] if two_dirs else ["src/*.svg"]))
        variants.append(dict(label="glob in toml, hashseed 12345", args=[str(toml_glob)], cwd=root, bdir=root / "b3", hs="12345", j=16, delay=100))
        toml_list = src_dir / "list.toml"
        toml_list.write_text(cli.toml_text({}, srcs=shuffled))
        variants.append(dict(label="explicit shuffled list in toml next to the sources", args=["list.toml"], cwd=src_dir, bdir=root / "b4", hs="7", j=2, delay=None))
        if two_dirs:
            rel_a = [n[2:] if n.startswith("a/") else "../" + n for n in names]
            # ... and with the build directory inside that source directory, so that build-relative spellings of the two
            # directories (../x.svg, ../../b/y.svg) order differently from absolute ones
            variants.append(dict(label="relative paths from inside one source directory (../b/x.svg), build directory inside it, j16", args=rel_a, cwd=src_dir / "a", bdir=src_dir / "a" / "bld5", hs="0", j=16, delay=300))
        else:
            variants.append(dict(label="sorted-args j16 other delay seed", args=names, cwd=src_dir, bdir=root / "b5", hs="0", j=16, delay=300))
        # the "deep dir" of variant 2 is a symbolic link to a directory at another depth: lexical and physical paths of
        # the build directory differ
        (root / "real" / "nested" / "deeper").mkdir(parents=True, exist_ok=True)
        if not (root / "deep dir").exists():
            os.symlink(root / "real" / "nested" / "deeper", root / "deep dir")
        for vi, v in enumerate(variants):
            ev = root / f"ev{vi}.jsonl"
            env = cli.env_for(events=ev, delay_ms=v["delay"], delay_seed=case["i"] * 10 + vi, ninja_j=v["j"], hashseed=v["hs"])
            v["bdir"].parent.mkdir(parents=True, exist_ok=True)
            rc, out = cli.nanoemoji(base_flags + ["--build_dir", str(v["bdir"])] + [str(a) for a in v["args"]], v["cwd"], env, timeout=300)
            c["cli_builds"] = c.get("cli_builds", 0) + 1
            if rc is None:
                res["error"] = "watchdog: CLI build timed out"
                return res
            if rc != 0:
                failed.append((v["label"], rc, out[:1500]))
                continue
            ext = "Font.ttf"
            h = {"font": cli.sha256(v["bdir"] / ext), "glyphmap_rows": None, "fea": cli.sha256(v["bdir"] / "Font.fea")}
            try:
                # glyph map rows name intermediate files relative to the build dir: compare as a multiset of (name, glyph, cps)
                rows = sorted(tuple(x.strip() for x in line.split(",")[2:]) + (os.path.basename(line.split(",")[0].strip()),) for line in (v["bdir"] / "Font.glyphmap").read_text().splitlines())
                h["glyphmap_rows"] = common.sha(rows)
            except OSError:
                pass
            hashes.append((v["label"], h))
            orders.add(cli.completion_order(cli.events(ev)))
        if failed and hashes:
            for label, rc, out in failed:
                res["violations"].append({"what": f"variant '{label}' failed (exit {rc}) while the same inputs build in other variants", "format": fmt, "output": out})
        elif failed and "same-name-in-two-dirs" in res["tags"]:
            c["ambiguous_classes_refused_in_every_variant"] = 1
        elif failed:
            c["classes_not_buildable_in_any_variant"] = 1  # e.g. a legal palette conflict: nothing to compare
        ref = hashes[0][1] if hashes else None
        for label, h in hashes[1:]:
            for k in ("font", "fea", "glyphmap_rows"):
                if h[k] != ref[k]:
                    res["violations"].append({"what": f"{k} differs between '{hashes[0][0]}' and '{label}'", "format": fmt, "sources": [s["name"] for s in srcs], "a": ref[k], "b": h[k]})
        if res["violations"] and os.environ.get("VERIF_KEEP"):
            shutil.copytree(root, Path(os.environ["VERIF_KEEP"]) / case["id"], dirs_exist_ok=True)
    finally:
        shutil.rmtree(root, ignore_errors=True)
    c["distinct_completion_orders"] = len(orders)
    c["classes"] = 1
    res["nontrivial"] = len(srcs) >= 3
    res["key"] = common.sha([fmt, srcs])
    res["orders"] = [list(o) for o in list(orders)[:3]]
    if case["i"] < 2:
        res["sample"] = {"format": fmt, "files": [s["name"] for s in srcs], "variants": [v["label"] for v in variants], "completion_orders_seen": [list(o) for o in list(orders)[:2]]}
    return res


BUILD_SNIPPET = r"""
import sys, json, hashlib
sys.path[:0] = json.loads(sys.argv[2])
from vf.drive import inproc
spec = json.load(open(sys.argv[1]))
b = inproc.build(spec["sources"], spec["cfg"], use_filenames=spec.get("use_filenames", False))
print("SHA", hashlib.sha256(b.data).hexdigest())
"""


def run_inproc(case):
    from vf.checks import c01, c02, c03

    which = ["c01", "c02", "c03", "paint-varied-reuse"][case["i"] % 4]
    sub = {"seed": case["seed"], "i": case["i"], "id": case["id"]}
    if which == "paint-varied-reuse":
        r = common.rng(ID, "pv", case["seed"], case["i"])
        svgs = svggen.paint_varied_reuse_set(r, r.randint(2, 4))
        seqs = svggen.sequences(r, len(svgs), long_names=False)
        sources = [{"svg": s, "codepoints": list(q)} for s, q in zip(svgs, seqs)]
        cfg = svggen.font_config(r, ("picosvg", "picosvg", "picosvgz", "glyf_colr_1", "cff_colr_0"), user_transform=False, small_upem=False)
        cfg["reuse_tolerance"] = 0.1
    else:
        sources, cfg, _ = {"c01": c01, "c02": c02, "c03": c03}[which].gen_case(sub)
    res = {"counters": {}, "violations": [], "tags": ["inproc:" + cfg["color_format"]]}
    c = res["counters"]
    root = common.mkscratch("c08ip-")
    try:
        spec = root / "spec.json"
        spec.write_text(json.dumps({"sources": sources, "cfg": cfg}))
        snip = root / "b.py"
        snip.write_text(BUILD_SNIPPET)
        paths = json.dumps([str(common.REPO / "src"), str(common.VERIF), str(common.DEPS)])
        r = common.rng(ID, "hs", case["seed"], case["i"])
        outs = []
        for hs in ("0", "1", "4242", str(r.randint(5, 4_000_000_000))):
            env = dict(os.environ, PYTHONHASHSEED=hs, SOURCE_DATE_EPOCH="1600000000", OMP_NUM_THREADS="1", OPENBLAS_NUM_THREADS="1")
            env.pop("PYTHONPATH", None)
            p = subprocess.run([common.PY, str(snip), str(spec), paths], capture_output=True, text=True, timeout=300, env=env)
            sha = [l.split()[1] for l in p.stdout.splitlines() if l.startswith("SHA ")]
            outs.append((hs, sha[0] if sha else None, p.returncode, p.stderr[-300:] if not sha else ""))
            c["inproc_builds"] = c.get("inproc_builds", 0) + 1
        ok = [o for o in outs if o[1]]
        if ok and len(ok) != len(outs):
            res["violations"].append({"what": "build succeeds under one hash seed and fails under another", "outcomes": outs, "config": cfg})
        elif ok and len({o[1] for o in ok}) != 1:
            res["violations"].append({"what": "font bytes depend on PYTHONHASHSEED (in-process _generate_color_font)", "outcomes": [(o[0], o[1]) for o in outs], "config": cfg, "sources": [s["svg"][:300] for s in sources]})
        elif not ok:
            c["inproc_all_failed"] = 1
        c["inproc_classes"] = 1
    finally:
        shutil.rmtree(root, ignore_errors=True)
    res["nontrivial"] = len(sources) >= 2
    res["key"] = common.sha([sources, cfg])
    return res


def run_case(case):
    return {"cli": run_cli, "multi": run_multi, "inproc": run_inproc}[case["kind"]](case)


def finish(agg):
    c = agg["counters"]
    inc = []
    if c.get("cli_builds", 0) == 0:
        inc.append("no CLI build ran")
    orders = set()
    for r in agg["results"]:
        for o in r.get("orders") or []:
            orders.add(tuple(o))
    if c.get("distinct_completion_orders", 0) < c.get("classes", 0) * 2:
        inc.append("schedule perturbation produced fewer than 2 distinct step completion orders per class on average")
    if c.get("classes_not_buildable_in_any_variant", 0) * 4 > c.get("classes", 0):
        inc.append(f"{c.get('classes_not_buildable_in_any_variant')} of {c.get('classes')} CLI classes could not be built in any variant: nothing compared there")
    if c.get("multi_config_classes", 0) == 0:
        inc.append("no multi-configuration class ran")
    if c.get("inproc_all_failed", 0) > c.get("inproc_classes", 1) // 2:
        inc.append("most in-process hash-seed builds failed to run")
    return {"inconclusive": inc, "coverage": {"cli_classes": c.get("classes", 0), "cli_builds": c.get("cli_builds", 0), "distinct_step_completion_orders_observed_sum_over_classes": c.get("distinct_completion_orders", 0), "example_completion_orders": [list(o) for o in list(orders)[:2]], "inproc_builds": c.get("inproc_builds", 0)}}
