"""C13 — COLR-to-SVG conversion preserves the picture for supported paint graphs."""
import io
import logging
import math
import traceback

from vf import common

ID = "C13"
LEVEL = "exploration"
RULE = (
    "case = one synthetic COLR font (fontBuilder + colorLib.buildCOLR/buildCPAL, 1-3 palettes, simple and composite outline "
    "glyphs with true side bearings) holding two colour glyphs whose paint graphs (depth <= 6) are drawn from the supported "
    "set {ColrLayers, Solid, Linear incl. rotated p2, Radial with r0>0 and c0!=c1, Glyph, ColrGlyph, Transform, Translate, "
    "Scale*, Rotate*, Skew*, Composite(SRC_IN, solid black)} x extend modes, or a COLRv0 layer list; one case in five plants "
    "an unsupported node (sweep gradient, variable paint, other composite mode, non-solid backdrop).  colr_to_svg is called "
    "with a viewBox callback (glyph region, scaled, shifted origin, non-square); the returned SVG is evaluated and compared "
    "layer by layer with the COLR evaluator's display list; currentColor / var(--colorN) conventions are checked; an "
    "unsupported node must raise or log a warning.  Non-trivial = graph with a transform, gradient or group."
)
ASSUMPTIONS = ["COLR evaluator is cross-checked against fontTools getTransform on every transform paint", "generated |scale| >= 0.05 (3-decimal SVG numbers)"]
N = {"quick": 1600, "thorough": 16000}


def plan(tier, seed):
    return [{"id": f"{seed}-{i}", "i": i} for i in range(N[tier])]


def poly(pts):
    from fontTools.pens.ttGlyphPen import TTGlyphPen

    p = TTGlyphPen(None)
    p.moveTo(pts[0])
    for q in pts[1:]:
        p.lineTo(q)
    p.closePath()
    return p.glyph()


def mkfont(r, npal, zero_advance=False, hhea_differs=False):
    from fontTools.fontBuilder import FontBuilder
    from fontTools.pens.ttGlyphPen import TTGlyphPen

    shapes = {}
    for i in range(4):
        cx, cy, n, s = r.randint(200, 800), r.randint(0, 600), r.randint(3, 6), r.randint(80, 250)
        shapes[f"s{i}"] = [(int(cx + s * math.cos(2 * math.pi * k / n + 0.3)), int(cy + s * math.sin(2 * math.pi * k / n + 0.3))) for k in range(n)]
    # curved outlines: a quadratic blob with on-curve points, and (TrueType allows it) a contour made of off-curve
    # points only, which pens receive as qCurveTo(..., None)
    curved = {}
    if r.random() < 0.5:
        for nm in ("q0", "q1"):
            cx, cy, n, s = r.randint(200, 800), r.randint(0, 600), r.randint(3, 6), r.randint(80, 250)
            pts = [(int(cx + s * math.cos(2 * math.pi * k / n + 0.7)), int(cy + s * math.sin(2 * math.pi * k / n + 0.7))) for k in range(n)]
            shapes[nm] = pts
            curved[nm] = nm == "q1" or r.random() < 0.5  # True: no on-curve point at all
    order = [".notdef", "A", "B"] + list(shapes) + ["comp", "compm"]
    fb = FontBuilder(1000, isTTF=True)
    fb.setupGlyphOrder(order)
    fb.setupCharacterMap({0x41: "A", 0x42: "B"})
    glyphs = {".notdef": poly([(0, 0), (0, 10), (10, 10), (10, 0)]), "A": TTGlyphPen(None).glyph(), "B": TTGlyphPen(None).glyph()}
    hm = {".notdef": (1000, 0), "A": (1000, 0), "B": (r.choice([1000, 600, 1400]), 0)}
    if zero_advance:
        hm["B"] = (0, 0)  # a colour glyph with no advance (a combining mark)
    for n, pts in shapes.items():
        if n in curved:
            pen = TTGlyphPen(None)
            if curved[n]:
                pen.qCurveTo(*pts, None)
            else:
                pen.moveTo(pts[0])
                pen.qCurveTo(*pts[1:], pts[0])
            pen.closePath()
            glyphs[n] = pen.glyph()
        else:
            glyphs[n] = poly(pts)
        hm[n] = (1000, min(p[0] for p in pts))
    # a composite glyph: s0 + shifted s1
    pen = TTGlyphPen({k: v for k, v in glyphs.items()})
    pen.addComponent("s0", (1, 0, 0, 1, 0, 0))
    pen.addComponent("s1", (1, 0, 0, 1, 37, -21))
    glyphs["comp"] = pen.glyph()
    allx = [p[0] for p in shapes["s0"]] + [p[0] + 37 for p in shapes["s1"]]
    hm["comp"] = (1000, min(allx))
    # a composite with a mirrored component that overlaps the unmirrored one: the mirror reverses the contour
    # direction, so under the non-zero rule the overlap is a hole
    mx = sum(p[0] for p in shapes["s2"]) // len(shapes["s2"])
    sh = r.randint(20, 90)
    pen = TTGlyphPen({k: v for k, v in glyphs.items()})
    pen.addComponent("s2", (1, 0, 0, 1, 0, 0))
    pen.addComponent("s2", (-1, 0, 0, 1, 2 * mx + sh, 0))
    glyphs["compm"] = pen.glyph()
    mirrored = [(2 * mx + sh - x, y) for x, y in shapes["s2"]]
    hm["compm"] = (1000, min(p[0] for p in shapes["s2"] + mirrored))
    shapes_all = dict(shapes)
    shapes_all["comp"] = shapes["s0"] + [(x + 37, y - 21) for x, y in shapes["s1"]]
    shapes_all["compm"] = shapes["s2"] + mirrored
    fb.setupGlyf(glyphs)
    fb.setupHorizontalMetrics(hm)
    asc, desc = r.choice([(800, -200), (950, -250), (1000, 0)])
    if hhea_differs:
        # hhea line metrics that are not the typo metrics, USE_TYPO_METRICS (fsSelection bit 7) not set - common in
        # fonts not made by nanoemoji
        fb.setupHorizontalHeader(ascent=asc + 120, descent=desc - 60)
    else:
        fb.setupHorizontalHeader(ascent=asc, descent=desc)
    fb.setupOS2(sTypoAscender=asc, sTypoDescender=desc)
    fb.setupNameTable({"familyName": "T", "styleName": "R"})
    fb.setupPost()
    return fb.font, shapes_all, (asc, desc)


PALIDX = [0, 1, 2, 3, 4, 0xFFFF]  # entry 4 is black in palette 0 (and not in the others)


def stops(r):
    n = r.randint(2, 4)
    offs = sorted(r.uniform(0, 1) for _ in range(n))
    if r.random() < 0.7:
        offs[0], offs[-1] = 0.0, 1.0
    if n >= 3 and r.random() < 0.3:
        offs[1] = offs[2] if n > 3 and r.random() < 0.5 else offs[0]  # a hard edge: two stops at one offset
        offs.sort()
    return [{"StopOffset": o, "PaletteIndex": r.choice(PALIDX), "Alpha": r.choice([1.0, 0.5, 0.8])} for o in offs]


def fillp(r, pts, PF):
    xs = [p[0] for p in pts]
    ys = [p[1] for p in pts]
    x0, x1, y0, y1 = min(xs), max(xs), min(ys), max(ys)
    k = r.random()
    if k < 0.4:
        return {"Format": PF.PaintSolid, "PaletteIndex": r.choice(PALIDX), "Alpha": r.choice([1.0, 0.6])}
    cl = {"Extend": r.choice(["pad", "repeat", "reflect"]), "ColorStop": stops(r)}
    if k < 0.7:
        return {"Format": PF.PaintLinearGradient, "ColorLine": cl, "x0": x0, "y0": y0, "x1": x1, "y1": y1, "x2": x0 + r.randint(-100, 100), "y2": y1 + r.randint(0, 100)}
    rr = max(x1 - x0, y1 - y0) // 2
    g = {"Format": PF.PaintRadialGradient, "ColorLine": cl, "x0": (x0 + x1) // 2 + r.randint(-20, 20), "y0": (y0 + y1) // 2 + r.randint(-20, 20), "r0": r.choice([0, 0, rr // 5]), "x1": (x0 + x1) // 2, "y1": (y0 + y1) // 2, "r1": rr}
    if r.random() < 0.4:
        g = {"Format": PF.PaintTransform, "Transform": (r.uniform(0.7, 1.3), r.uniform(-0.3, 0.3), r.uniform(-0.3, 0.3), r.uniform(0.7, 1.3), r.uniform(-30, 30), r.uniform(-30, 30)), "Paint": g}
    return g


def sc(r):
    return r.choice([-1, 1]) * r.uniform(0.4, 1.8) if r.random() < 0.25 else r.uniform(0.4, 1.8)


def xform(r, child, PF):
    k = r.randint(0, 9)
    cx, cy = r.randint(0, 1000), r.randint(0, 600)
    if k == 0:
        return {"Format": PF.PaintTranslate, "dx": r.randint(-200, 200), "dy": r.randint(-200, 200), "Paint": child}
    if k == 1:
        return {"Format": PF.PaintScale, "scaleX": sc(r), "scaleY": sc(r), "Paint": child}
    if k == 2:
        return {"Format": PF.PaintScaleAroundCenter, "scaleX": sc(r), "scaleY": sc(r), "centerX": cx, "centerY": cy, "Paint": child}
    if k == 3:
        return {"Format": PF.PaintScaleUniform, "scale": r.uniform(0.4, 1.8), "Paint": child}
    if k == 4:
        return {"Format": PF.PaintScaleUniformAroundCenter, "scale": r.uniform(0.4, 1.8), "centerX": cx, "centerY": cy, "Paint": child}
    if k == 5:
        return {"Format": PF.PaintRotate, "angle": r.uniform(-180, 180), "Paint": child}
    if k == 6:
        return {"Format": PF.PaintRotateAroundCenter, "angle": r.uniform(-180, 180), "centerX": cx, "centerY": cy, "Paint": child}
    if k == 7:
        return {"Format": PF.PaintSkew, "xSkewAngle": r.uniform(-40, 40), "ySkewAngle": r.uniform(-40, 40), "Paint": child}
    if k == 8:
        return {"Format": PF.PaintSkewAroundCenter, "xSkewAngle": r.uniform(-40, 40), "ySkewAngle": r.uniform(-40, 40), "centerX": cx, "centerY": cy, "Paint": child}
    return {"Format": PF.PaintTransform, "Transform": (r.uniform(0.5, 1.5), r.uniform(-0.5, 0.5), r.uniform(-0.5, 0.5), r.uniform(0.5, 1.5), r.uniform(-100, 100), r.uniform(-100, 100)), "Paint": child}


def graph(r, shapes, depth, allow_colrglyph, PF, stats):
    k = r.random()
    if depth >= 5 or k < 0.35:
        n = r.choice(list(shapes))
        return {"Format": PF.PaintGlyph, "Glyph": n, "Paint": fillp(r, shapes[n], PF)}
    if k < 0.65:
        stats["transforms"] = stats.get("transforms", 0) + 1
        return xform(r, graph(r, shapes, depth + 1, allow_colrglyph, PF, stats), PF)
    if k < 0.85:
        return {"Format": PF.PaintColrLayers, "Layers": [graph(r, shapes, depth + 1, allow_colrglyph, PF, stats) for _ in range(r.randint(2, 3))]}
    if k < 0.93 and allow_colrglyph:
        stats["colrglyph"] = stats.get("colrglyph", 0) + 1
        return {"Format": PF.PaintColrGlyph, "Glyph": "A"}
    stats["groups"] = stats.get("groups", 0) + 1
    return {
        "Format": PF.PaintComposite,
        "CompositeMode": "src_in",
        # the group is a layer list, or - half of the time - a single sub-graph wrapped directly
        "SourcePaint": {"Format": PF.PaintColrLayers, "Layers": [graph(r, shapes, depth + 1, allow_colrglyph, PF, stats) for _ in range(2)]} if r.random() < 0.5 else graph(r, shapes, max(depth + 1, 4), allow_colrglyph, PF, stats),
        "BackdropPaint": {"Format": PF.PaintSolid, "PaletteIndex": 4, "Alpha": r.choice([0.3, 0.5, 0.75])},
    }


def unsupported(r, shapes, PF):
    n = r.choice(list(shapes))
    pts = shapes[n]
    k = r.randint(0, 3)
    cl = {"Extend": "pad", "ColorStop": [{"StopOffset": 0, "PaletteIndex": 0, "Alpha": 1.0}, {"StopOffset": 1, "PaletteIndex": 1, "Alpha": 1.0}]}
    if k == 0:
        return "sweep", {"Format": PF.PaintGlyph, "Glyph": n, "Paint": {"Format": PF.PaintSweepGradient, "ColorLine": cl, "centerX": pts[0][0], "centerY": pts[0][1], "startAngle": 0, "endAngle": 270}}
    if k == 1:
        mode = r.choice(["src_over", "multiply", "xor", "dest_out", "plus"])
        return "composite-" + mode, {
            "Format": PF.PaintComposite,
            "CompositeMode": mode,
            "SourcePaint": {"Format": PF.PaintGlyph, "Glyph": n, "Paint": {"Format": PF.PaintSolid, "PaletteIndex": 0, "Alpha": 1.0}},
            "BackdropPaint": {"Format": PF.PaintGlyph, "Glyph": r.choice(list(shapes)), "Paint": {"Format": PF.PaintSolid, "PaletteIndex": 1, "Alpha": 1.0}},
        }
    if k == 2:
        return "srcin-nonsolid-backdrop", {
            "Format": PF.PaintComposite,
            "CompositeMode": "src_in",
            "SourcePaint": {"Format": PF.PaintGlyph, "Glyph": n, "Paint": {"Format": PF.PaintSolid, "PaletteIndex": 0, "Alpha": 1.0}},
            "BackdropPaint": {"Format": PF.PaintGlyph, "Glyph": r.choice(list(shapes)), "Paint": {"Format": PF.PaintSolid, "PaletteIndex": 1, "Alpha": 0.5}},
        }
    return "var-translate", {"Format": PF.PaintVarTranslate, "dx": 10, "dy": 20, "VarIndexBase": 0xFFFFFFFF, "Paint": {"Format": PF.PaintGlyph, "Glyph": n, "Paint": {"Format": PF.PaintSolid, "PaletteIndex": 0, "Alpha": 1.0}}}


class Catch(logging.Handler):
    def __init__(self):
        super().__init__()
        self.n = 0

    def emit(self, rec):
        if rec.levelno >= logging.WARNING:
            self.n += 1


def run_case(case):
    import numpy as np
    from fontTools.colorLib.builder import buildCOLR, buildCPAL
    from fontTools.ttLib import TTFont
    from fontTools.ttLib.tables.otTables import PaintFormat as PF

    from vf.drive import inproc

    inproc.init()
    from nanoemoji.colr_to_svg import colr_to_svg, glyph_region
    from picosvg.geometric_types import Rect
    from vf.hooks import contracts
    from vf.oracle import colreval, compare, svgeval

    contracts.install()
    contracts.reset()
    r = common.rng(ID, case["seed"], case["i"])
    res = {"counters": {}, "maxes": {}, "violations": [], "tags": []}
    c = res["counters"]
    npal = r.choice([1, 1, 2, 3])
    font, shapes, (asc, desc) = mkfont(r, npal)
    stats = {}
    v0 = r.random() < 0.12
    plant = (not v0) and r.random() < 0.2
    planted = None
    if v0:
        layers = {g: [(r.choice(list(shapes)), r.choice([0, 1, 2, 3, 0xFFFF])) for _ in range(r.randint(1, 4))] for g in ("A", "B")}
        font["COLR"] = buildCOLR(layers, version=0)
        res["tags"].append("colr0")
    else:
        gA = {"Format": PF.PaintColrLayers, "Layers": [graph(r, shapes, 1, False, PF, stats) for _ in range(r.randint(1, 3))]}
        gB = {"Format": PF.PaintColrLayers, "Layers": [graph(r, shapes, 1, True, PF, stats) for _ in range(r.randint(1, 3))]}
        if plant:
            planted, node = unsupported(r, shapes, PF)
            gB["Layers"].insert(r.randint(0, len(gB["Layers"])), node)
            res["tags"].append("unsupported:" + planted)
        font["COLR"] = buildCOLR({"A": gA, "B": gB}, version=1)
        res["tags"].append("colr1")
    pals = []
    for p in range(npal):
        pals.append([(r.random(), r.random(), r.random(), 1.0) if p else c4 for c4 in [(1, 0, 0, 1), (0, 0, 1, 1), (0, 0.6, 0, 1), (1, 1, 0, 0.5), (0, 0, 0, 1)]])
    font["CPAL"] = buildCPAL(pals)
    b = io.BytesIO()
    font.save(b)
    font = TTFont(io.BytesIO(b.getvalue()))
    vbmode = r.choice(["region", "scaled", "shift", "nonsquare"])
    res["tags"].append("vb:" + vbmode)

    def vb(gn):
        reg = glyph_region(font, gn)
        if vbmode == "region":
            return reg
        if vbmode == "scaled":
            return Rect(0, 0, reg.w / 10, reg.h / 10)
        if vbmode == "shift":
            return Rect(13, -7, reg.w / 4, reg.h / 4)
        return Rect(-5, 3, reg.w / 3, reg.h / 7)

    catch = Catch()
    lg = logging.getLogger("absl")
    lg.addHandler(catch)
    from absl import logging as absl_logging

    old_verbosity = absl_logging.get_verbosity()
    absl_logging.set_verbosity(absl_logging.WARNING)  # the harness runs quiet; the warning is what is being observed here
    err = None
    try:
        svgs = colr_to_svg(vb, font)
    except Exception as e:
        err = e
        tb = traceback.format_exc()[-1200:]
    finally:
        lg.removeHandler(catch)
        absl_logging.set_verbosity(old_verbosity)
    if planted:
        c["unsupported_planted"] = 1
        if err is None and catch.n == 0:
            res["violations"].append({"what": f"paint graph with an unsupported node ({planted}) was converted silently: no exception, no warning", "planted": planted})
        else:
            c["unsupported_reported"] = 1
        res["nontrivial"] = True
        res["key"] = common.sha([case["seed"], case["i"]])
        return res
    if err is not None:
        res["violations"].append({"what": f"colr_to_svg raised {type(err).__name__} on a supported paint graph: {str(err)[:200]}", "trace": tb})
        return res
    ev = colreval.Evaluator(font)
    for gn in ("A", "B"):
        c["glyphs"] = c.get("glyphs", 0) + 1
        adv = font["hmtx"][gn][0]
        v = vb(gn)
        A = svgeval.A_ref((v.x, v.y, v.w, v.h), asc, desc, adv)
        try:
            ref = ev.display_list(gn)
            got = svgeval.display_list(svgs[gn].tostring(), A, svg_quantum=0.001)
        except (colreval.Unsupported, svgeval.Unsupported) as e:
            c["evaluator_unsupported"] = c.get("evaluator_unsupported", 0) + 1
            continue
        tol = compare.Tol(1000, output="svg")
        pr, st = compare.compare_layers(ref, got, tol, check_palette=False)
        for p in pr:
            p.update({"glyph": gn, "viewbox_mode": vbmode, "svg": svgs[gn].tostring()[:1500]})
            if p.get("mechanism") == "F9-extend-interval":
                pass
            res["violations"].append(p)
        c["layers"] = c.get("layers", 0) + len(ref)
        c["gradient_layers"] = c.get("gradient_layers", 0) + st["gradient_layers"]
        c["undecided_gradient_layers"] = c.get("undecided_gradient_layers", 0) + st["undecided_gradient_layers"]
        for k in ("max_h_over_eps", "max_colour_excess"):
            res["maxes"][k] = max(res["maxes"].get(k, 0.0), st[k])
        # colour conventions: foreground -> currentColor, multi-palette -> var(--colorN, c)
        if len(ref) == len(got):
            for rl, gl in zip(ref, got):
                pairs = []
                if rl.paint.kind == "solid" and gl.paint.kind == "solid":
                    pairs = [(rl.paint.color, gl.paint.color)]
                elif rl.paint.kind == gl.paint.kind and len(rl.paint.stops) == len(gl.paint.stops):
                    pairs = [(a[1][0], b_[1][0]) for a, b_ in zip(rl.paint.stops, gl.paint.stops)]
                for rc_, gc_ in pairs:
                    if rc_[0] == "fg":
                        c["fg_colours"] = c.get("fg_colours", 0) + 1
                        if gc_[0] != "fg":
                            res["violations"].append({"what": "foreground colour entry did not become currentColor", "glyph": gn, "got": gc_})
                    elif npal > 1:
                        c["palette_var_colours"] = c.get("palette_var_colours", 0) + 1
                        if gc_[2] != rc_[2]:
                            res["violations"].append({"what": f"multi-palette font: palette entry {rc_[2]} did not become var(--color{rc_[2]}, c)", "glyph": gn, "got": gc_})
    for k, v_ in stats.items():
        c["graph_" + k] = v_
    sc_ = colreval.SELF_CHECK
    c["transform_selfchecks"] = sc_["transforms_checked"]
    c["oracle_disagreement"] = sc_["transform_disagreements"]
    sc_["transforms_checked"] = sc_["transform_disagreements"] = 0
    for v_ in contracts.violations():
        res["violations"].append(v_)
    res["nontrivial"] = bool(stats.get("transforms") or stats.get("groups") or c.get("gradient_layers"))
    res["key"] = common.sha([case["seed"], case["i"]])
    if case["i"] < 2:
        res["sample"] = {"viewbox_mode": vbmode, "palettes": npal, "svg_B": svgs["B"].tostring()[:1200]}
    return res


def finish(agg):
    c = agg["counters"]
    inc = []
    for k in ("graph_transforms", "graph_groups", "graph_colrglyph", "gradient_layers", "fg_colours", "palette_var_colours", "unsupported_planted", "transform_selfchecks"):
        if c.get(k, 0) == 0:
            inc.append(f"deciding monitor/branch never reached: {k}")
    if agg["tags"].get("colr0", 0) == 0:
        inc.append("no COLRv0 font converted")
    if c.get("oracle_disagreement", 0):
        inc.append(f"ORACLE-DISAGREEMENT: COLR evaluator matrices vs fontTools getTransform differ {c['oracle_disagreement']}x")
    return {"inconclusive": inc}
