"""C02, untouchedsvg[z]: arbitrary well-formed SVG is beyond the mini evaluator, so an independent real
renderer (resvg) decides: the emitted glyph element rendered in OT-SVG space must give the same pixels as
the source placed by the statement's affine (built here, at full precision, independently)."""
import io
import os
import re
import subprocess
import traceback

from vf import common
from vf.gen import svggen


def gen_case(case):
    r = common.rng("C02raw", case["seed"], case["i"])
    pal = None
    cfg = svggen.font_config(r, ("untouchedsvg", "untouchedsvg", "untouchedsvgz"))
    srcs = []
    for g in range(r.randint(1, 3)):
        t, m = svggen.svg_source(r, g, pal, outside=r.random() < 0.3)
        t = t.replace("currentColor", "#123456")
        k = r.random()
        if k < 0.4:
            # extra raw-only constructs: a <use> of a defs shape, a transformed group, a clip path
            vb = m["viewBox"]
            cx, cy, s = vb[0] + vb[2] / 2, vb[1] + vb[3] / 2, min(vb[2], vb[3]) / 5
            extra = (
                f'<defs><rect id="u{g}" x="{cx - s:.2f}" y="{cy - s:.2f}" width="{s:.2f}" height="{s * 0.7:.2f}"/>'
                f'<clipPath id="cp{g}"><circle cx="{cx:.2f}" cy="{cy:.2f}" r="{s * 1.5:.2f}"/></clipPath></defs>'
                f'<g transform="rotate({r.uniform(-40, 40):.1f} {cx:.2f} {cy:.2f})" clip-path="url(#cp{g})">'
                f'<use href="#u{g}" fill="#{r.randint(0, 0xFFFFFF):06x}"/><use href="#u{g}" x="{s * 0.8:.2f}" y="{s * 0.5:.2f}" fill="#{r.randint(0, 0xFFFFFF):06x}" opacity="0.6"/></g>'
            )
            t = t.replace("</svg>", extra + "</svg>")
        if r.random() < 0.35:
            # a nested <svg> viewport: its own x/y/width/height/viewBox scale and clip what it contains
            vb = m["viewBox"]
            nx, ny, nw, nh = vb[0] + vb[2] * r.uniform(0.05, 0.5), vb[1] + vb[3] * r.uniform(0.05, 0.5), vb[2] * r.uniform(0.2, 0.45), vb[3] * r.uniform(0.2, 0.45)
            inner = f'<rect x="1" y="1" width="6" height="5" fill="#{r.randint(0, 0xFFFFFF):06x}"/><circle cx="8" cy="8" r="4" fill="#{r.randint(0, 0xFFFFFF):06x}"/>'
            t = t.replace("</svg>", f'<svg x="{nx:.2f}" y="{ny:.2f}" width="{nw:.2f}" height="{nh:.2f}" viewBox="0 0 {r.choice([10, 10, 20])} 10">{inner}</svg></svg>')
        if r.random() < 0.5:
            t = t.replace("<svg ", f'<svg width="{r.choice([64, 100, 512])}" height="{r.choice([64, 100, 300])}" ', 1)
        if r.random() < 0.2:
            t = t.replace("<svg ", '<svg enable-background="new 0 0 10 10" ', 1)
        if r.random() < 0.3:
            # Illustrator-style root style: inherited paint properties around an enable-background declaration, used by
            # shapes that carry no fill of their own
            vb = m["viewBox"]
            decl = [f"fill:#{r.randint(0, 0xFFFFFF):06x}", f"fill-opacity:{r.choice([0.5, 0.8, 1])}", "enable-background:new 0 0 128 128", f"opacity:{r.choice([1, 0.9])}"]
            r.shuffle(decl)
            t = t.replace("<svg ", '<svg style="' + ";".join(decl) + r.choice([";", ""]) + '" ', 1)
            t = t.replace("</svg>", f'<path d="M{vb[0] + vb[2] * 0.1:.2f},{vb[1] + vb[3] * 0.6:.2f} h{vb[2] * 0.3:.2f} v{vb[3] * 0.3:.2f} z"/></svg>')
        srcs.append(t)
    seqs = svggen.sequences(r, len(srcs), long_names=False)
    return [{"svg": s, "codepoints": list(q)} for s, q in zip(srcs, seqs)], cfg


def render(svg_text, path):
    with open(path + ".svg", "w") as f:
        f.write(svg_text)
    p = subprocess.run(["/venv/bin/resvg", path + ".svg", path + ".png"], capture_output=True, text=True, timeout=60)
    if p.returncode != 0:
        raise RuntimeError("resvg: " + p.stderr[-300:])
    from PIL import Image
    import numpy as np

    im = Image.open(path + ".png").convert("RGBA")
    return np.asarray(im, dtype=float) / 255.0


def run_case(case):
    import numpy as np
    from lxml import etree

    from vf.checks import render_common as rc
    from vf.drive import inproc
    from vf.oracle import geom, svgeval

    sources, cfg = gen_case(case)
    res = {"counters": {}, "maxes": {}, "violations": [], "tags": [cfg["color_format"], "raw"]}
    try:
        built = inproc.build(sources, cfg)
    except Exception as e:
        if rc.is_overflow_refusal(e):
            res["counters"]["build_refused_overflow"] = 1
            return res
        res["violations"].append({"what": f"build raised {type(e).__name__}: {str(e)[:300]}", "trace": traceback.format_exc()[-1500:], "config": cfg})
        return res
    font, c = built.font, res["counters"]
    scratch = common.mkscratch("c02raw-")
    try:
        for i, inp in enumerate(built.inputs):
            reached = rc.reach(font, inp.codepoints)
            if len(reached) != 1:
                res["violations"].append({"what": "codepoints do not shape to one glyph", "input": i, "reached": reached})
                continue
            name = reached[0]
            gid = font.getGlyphID(name)
            adv = font["hmtx"][name][0]
            docs = [d for d in rc.svg_docs(font) if d[1] <= gid <= d[2]]
            if len(docs) != 1:
                res["violations"].append({"what": f"glyph id {gid} covered by {len(docs)} SVG documents", "glyph": name, "config": cfg})
                continue
            doc = docs[0][0]
            if len(re.findall(r'\bid="glyph%d"' % gid, doc)) != 1:
                res["violations"].append({"what": f"document does not hold exactly one element glyph{gid}", "glyph": name, "config": cfg})
                continue
            c["raw_glyphs"] = c.get("raw_glyphs", 0) + 1
            asc, desc = built.cfg.ascender, built.cfg.descender
            em = asc - desc
            H = 256
            W = max(8, round(H * adv / em))
            box = f'viewBox="0 {-asc} {adv} {em}" width="{W}" height="{H}" preserveAspectRatio="none"'
            # candidate: the emitted document, only this glyph element, looked at through the em box
            root = etree.fromstring(doc.encode())
            for k in ("viewBox", "width", "height", "preserveAspectRatio"):
                root.attrib.pop(k, None)
            for ch in list(root):
                if isinstance(ch.tag, str) and (ch.get("id") or "").startswith("glyph") and ch.get("id") != f"glyph{gid}":
                    root.remove(ch)
            cand = etree.tostring(root).decode()
            cand = re.sub(r"<svg\b", "<svg " + box, cand, count=1)
            # reference: the raw source's content under the statement's placement (OT-SVG space: y down)
            sroot = etree.fromstring(sources[i]["svg"].encode())
            vb = tuple(float(x) for x in re.split(r"[\s,]+", sroot.get("viewBox").strip()))
            A = rc.FLIP_Y @ svgeval.A_ref(vb, asc, desc, adv, rc.user_matrix(built.cfg))
            for k in ("viewBox", "width", "height", "preserveAspectRatio", "enable-background"):
                sroot.attrib.pop(k, None)
            g = etree.Element("{http://www.w3.org/2000/svg}g")
            g.set("transform", "matrix(%r %r %r %r %r %r)" % tuple(float(v) for v in geom.tup(A)))
            for ch in list(sroot):
                g.append(ch)
            sroot.append(g)
            ref = re.sub(r"<svg\b", "<svg " + box, etree.tostring(sroot).decode(), count=1)
            try:
                a = render(cand, str(scratch / f"c{i}"))
                b = render(ref, str(scratch / f"r{i}"))
            except Exception as e:
                c["resvg_failed"] = c.get("resvg_failed", 0) + 1
                continue
            if a.shape != b.shape:
                res["violations"].append({"what": "rendered sizes differ", "glyph": name, "config": cfg})
                continue
            # premultiplied difference
            pa, pb = a.copy(), b.copy()
            pa[..., :3] *= pa[..., 3:]
            pb[..., :3] *= pb[..., 3:]
            diff = np.abs(pa - pb).max(axis=2)
            nbad = int((diff > 24 / 255).sum())
            painted = int((pb[..., 3] > 0.02).sum())
            c["raw_painted_pixels"] = c.get("raw_painted_pixels", 0) + painted
            # the statement allows outlines to sit a few (3) font units off: edges may move by that many pixels
            gx = np.abs(np.diff(pb, axis=1)).max(axis=2) > 24 / 255
            gy = np.abs(np.diff(pb, axis=0)).max(axis=2) > 24 / 255
            edge_px = int(gx.sum() + gy.sum())
            shift_px = 3.0 * H / em
            budget = 0.004 * W * H + 12 + edge_px * (shift_px + 0.25)
            res["maxes"]["max_bad_pixel_fraction"] = max(res["maxes"].get("max_bad_pixel_fraction", 0), nbad / (W * H))
            if nbad > budget:
                res["violations"].append({"what": "untouched SVG glyph renders differently from the source placed in the em box", "glyph": name, "bad_pixels": nbad, "budget": round(budget), "size": [W, H], "painted_pixels": painted, "config": cfg, "doc_head": doc[:400]})
            if painted > 50:
                res["nontrivial"] = True
    finally:
        import shutil

        shutil.rmtree(scratch, ignore_errors=True)
    res["key"] = common.sha([sources, cfg])
    if case["i"] < 1:
        res["sample"] = {"config": cfg, "raw_source": sources[0]["svg"][:700]}
    return res
