"""C19 — Congruent copies of a shape are stored once."""
import math
import re
import traceback

from vf import common

ID = "C19"
LEVEL = "exploration"
RULE = (
    "case = one font in {glyf_colr_0, glyf_colr_1, picosvg} of 2-6 glyphs x 1-3 copies of one prototype shape (polygon, curved "
    "blob, ellipse, ring) under isometries: EXACT tier (integer font-unit coordinates; translations, k*90 degree rotations, "
    "mirrors: only floating point noise) or ARBITRARY tier (any angle, any translation, either mirror axis), viewBox >= 24, "
    "tolerance default or larger.  Observed: the outline each copy is drawn from (PaintGlyph glyph / COLRv0 layer base glyph "
    "after flattening composites / <path> id behind <use>); one per class when reuse is on, and a control build with reuse "
    "off must store them separately.  Every miss is audited from contract H2's log of pre-rounding normal forms: K1 rounding-"
    "boundary straddle and K2 insignificant-y mirror are the recorded finding F6, any other miss is a violation.  "
    "Non-trivial = font with >= 2 copies under a non-identity isometry; distinct = (prototype, isometries, config)."
)
ASSUMPTIONS = ["picosvg normalisation is third-party; its two audited failure mechanisms are keyed in known_findings.jsonl", "one prototype per font so the congruence classes are known by construction"]
N = {"quick": 960, "thorough": 9600}
FORMATS = ("glyf_colr_1", "glyf_colr_1", "glyf_colr_0", "picosvg")


def plan(tier, seed):
    return [{"id": f"{seed}-{i}", "i": i} for i in range(N[tier])]


def proto(r, kind, size, exact):
    """path data generator: list of ('M'|'L'|'C'|'Z', [points]) in local coords around the origin"""
    rnd = (lambda a, b: float(r.randint(int(a), int(b)))) if exact else r.uniform
    n = r.randint(3, 8)
    a0 = r.uniform(0, 6.28)
    pts = []
    for i in range(n):
        a = a0 + 2 * math.pi * i / n + r.uniform(-0.25, 0.25)
        rr = size * r.uniform(0.55, 1.0)
        x, y = rr * math.cos(a), rr * math.sin(a)
        pts.append((float(round(x)), float(round(y))) if exact else (x, y))
    if len(set(pts)) < 3:
        pts = [(size, 0.0), (0.0, size), (-size, -size / 2)]
    if kind == "sliver":
        # long thin triangle: in the normal form no vector has a significant y, so a mirror is not normalised away
        L = size * 2
        h = max(1.0, round(L * 0.03)) if exact else L * r.uniform(0.01, 0.04)
        L = float(round(L)) if exact else L
        pts = [(0.0, 0.0), (L, 0.0), (float(round(L * 0.6)) if exact else L * 0.6, h)]
        return [("M", [pts[0]])] + [("L", [p]) for p in pts[1:]] + [("Z", [])]
    if kind == "polygon":
        return [("M", [pts[0]])] + [("L", [p]) for p in pts[1:]] + [("Z", [])]
    if kind == "ring":
        inner = [(round(x * 0.5) if exact else x * 0.45, round(y * 0.5) if exact else y * 0.45) for x, y in pts]
        return [("M", [pts[0]])] + [("L", [p]) for p in pts[1:]] + [("Z", [])] + [("M", [inner[-1]])] + [("L", [p]) for p in reversed(inner[:-1])] + [("Z", [])]
    if kind == "blob":
        cmds = [("M", [pts[0]])]
        for i in range(1, n + 1):
            a, b = pts[i - 1], pts[i % n]
            j = (lambda v: float(round(v))) if exact else (lambda v: v)
            c1 = (j(a[0] + (b[0] - a[0]) / 3 + r.uniform(-1, 1) * size * 0.2), j(a[1] + (b[1] - a[1]) / 3 + r.uniform(-1, 1) * size * 0.2))
            c2 = (j(a[0] + 2 * (b[0] - a[0]) / 3 + r.uniform(-1, 1) * size * 0.2), j(a[1] + 2 * (b[1] - a[1]) / 3 + r.uniform(-1, 1) * size * 0.2))
            cmds.append(("C", [c1, c2, b]))
        return cmds + [("Z", [])]
    # ellipse as 4 cubics
    rx, ry = (float(round(size)), float(round(size * 0.6))) if exact else (size, size * r.uniform(0.4, 0.9))
    k = 0.5522847498
    return [
        ("M", [(rx, 0.0)]),
        ("C", [(rx, k * ry), (k * rx, ry), (0.0, ry)]),
        ("C", [(-k * rx, ry), (-rx, k * ry), (-rx, 0.0)]),
        ("C", [(-rx, -k * ry), (-k * rx, -ry), (0.0, -ry)]),
        ("C", [(k * rx, -ry), (rx, -k * ry), (rx, 0.0)]),
        ("Z", []),
    ]


def place(cmds, iso):
    """apply isometry (mirror, angle or k90, tx, ty) exactly (k90) or in floating point"""
    mir, rot, tx, ty = iso
    out = []
    for c, pts in cmds:
        q = []
        for x, y in pts:
            if mir == "x":
                x = -x
            elif mir == "y":
                y = -y
            if isinstance(rot, int):
                for _ in range(rot % 4):
                    x, y = -y, x
            else:
                x, y = x * math.cos(rot) - y * math.sin(rot), x * math.sin(rot) + y * math.cos(rot)
            q.append((x + tx, y + ty))
        out.append((c, q))
    return out


def to_d(cmds, nd):
    f = lambda v: ("%.*f" % (nd, v)).rstrip("0").rstrip(".") if nd else "%d" % round(v)
    s = []
    for c, pts in cmds:
        s.append(c + " ".join(f"{f(x)},{f(y)}" for x, y in pts))
    return " ".join(s)


def gen_case(case):
    r = common.rng(ID, case["seed"], case["i"])
    fmt = r.choice(FORMATS)
    exact = r.random() < 0.5
    vb = r.choice([24, 32, 64, 100, 128, 256, 1000])
    if exact:
        scale = r.choice([4, 8, 10, 16]) if vb <= 256 else 1
        upem = int(vb * scale)
    else:
        upem = r.choice([1000, 1024, 2048])
    tol = r.choice([0.1, 0.1, 0.1, 0.2, 0.5])
    kind = r.choice(["polygon", "polygon", "blob", "ellipse", "ring", "sliver"])
    size = vb * (r.uniform(0.08, 0.16) if r.random() < 0.75 else r.uniform(0.035, 0.08))  # some small details too
    if exact:
        size = max(3, round(size))
    P = proto(r, kind, size, exact)
    glyphs = []
    isos = []
    exact_paths = []
    nglyphs = r.choice([2, 2, 3, 3, 4, 5, 6]) if r.random() < 0.95 else r.randint(17, 26)  # sometimes a shape shared by many glyphs
    wide = []
    for g in range(nglyphs):
        paths = ""
        for cpy in range(r.randint(1, 3)):
            if exact:
                iso = (r.choice([None, None, "x", "y"]), r.randint(0, 3), float(r.randint(int(vb * 0.3), int(vb * 0.7))), float(r.randint(int(vb * 0.3), int(vb * 0.7))))
            else:
                iso = (r.choice([None, None, "x", "y"]), r.choice([0.0, r.uniform(-math.pi, math.pi)]), r.uniform(vb * 0.3, vb * 0.7), r.uniform(vb * 0.3, vb * 0.7))
            if not isos:
                iso = (None, 0 if exact else 0.0, iso[2], iso[3])
            isos.append(iso)
            exact_paths.append(to_d(place(P, iso), 0 if exact else 12))
            d = to_d(place(P, iso), 0 if exact else 6)
            paths += f'<path d="{d}" fill="#{r.randint(0, 0xFFFFFF):06x}"/>'
        # some glyphs are wider than the others (a different advance); the copies stay where they are
        wv = vb if (g == 0 or r.random() < 0.75) else int(vb * r.choice([1.5, 2]))
        wide.append(wv)
        glyphs.append(f'<svg xmlns="http://www.w3.org/2000/svg" viewBox="0 0 {wv} {vb}"><defs/>{paths}</svg>')
    cfg = {"color_format": fmt, "upem": upem, "ascender": upem, "descender": 0, "width": upem, "reuse_tolerance": tol, "clip_to_viewbox": False, "keep_glyph_names": True}
    sources = [{"svg": s, "codepoints": [0xE000 + i]} for i, s in enumerate(glyphs)]
    return sources, cfg, {"exact": exact, "kind": kind, "isos": isos, "vb": vb, "exact_paths": exact_paths}


NUM = re.compile(r"[-+]?(?:\d+\.?\d*|\.\d+)(?:[eE][-+]?\d+)?")


def parse_rel(d):
    """relative normal-form path -> [(cmd, [floats])]"""
    out = []
    for m in re.finditer(r"([MmLlCcQqAaZzHhVvSsTt])([^MmLlCcQqAaZzHhVvSsTt]*)", d):
        out.append((m.group(1), [float(x) for x in NUM.findall(m.group(2))]))
    return out


YIDX = {"l": [1], "m": [1], "M": [1], "c": [1, 3, 5], "q": [1, 3], "a": [6], "z": [], "Z": [], "s": [1, 3], "t": [1]}


def normal_form_pre(d, tol):
    """picosvg's normal form of a path *before* its final rounding (the third-party mechanism under audit)."""
    from picosvg.svg_reuse import normalize
    from picosvg.svg_types import SVGPath
    from vf.hooks import contracts

    contracts._STATE["capture_round"] = []
    try:
        normalize(SVGPath(d=d), tol)
        pre = contracts._STATE["capture_round"]
    finally:
        contracts._STATE["capture_round"] = None
    return pre[0] if pre else None


def _maxdiff(a, b, negate_y=False):
    if [c for c, _ in a] != [c for c, _ in b] or any(len(x[1]) != len(y[1]) for x, y in zip(a, b)):
        return None, None
    dm, ymax = 0.0, 0.0
    for (c, x), (_, y) in zip(a, b):
        for i, (u, v) in enumerate(zip(x, y)):
            if negate_y and i in YIDX.get(c, []):
                ymax = max(ymax, abs(u), abs(v))
                dm = max(dm, abs(u + v))
            else:
                dm = max(dm, abs(u - v))
    return dm, ymax


def classify_miss(donor, copy, exact_donor_d, exact_copy_d, reuse_tol):
    """donor / copy: H2 log entries (what the build saw); exact_*: the unrounded shapes of the generator.
    -> (mechanism | None | "not-representable", explanation)"""
    if not donor or not copy or donor.get("post") is None or copy.get("post") is None:
        return None, "no normal-form log for this pair"
    tol = donor["norm_tol"]
    if donor["post"] == copy["post"]:
        # the cache key matched: the copy can only have been left alone by affine_between / the range test
        from picosvg.svg_reuse import affine_between
        from picosvg.svg_types import SVGPath

        aff = affine_between(SVGPath(d=donor["path"]), SVGPath(d=copy["path"]), reuse_tol)
        if aff is None:
            return "F6-K3-affine-between-none", "normal forms are equal but picosvg's affine_between finds no transform between the two paths"
        if not all(-32768 <= v <= 32767.99998 for v in aff):
            return "not-representable", "placing transform outside Fixed 16.16"
        return None, f"normal forms are equal and affine_between gives {tuple(round(v, 4) for v in aff)}, yet the copy was not reused"
    ed, ec = normal_form_pre(exact_donor_d, tol), normal_form_pre(exact_copy_d, tol)
    if ed is None or ec is None:
        return None, "exact normal forms unavailable"
    a, b = parse_rel(ed), parse_rel(ec)
    dm, _ = _maxdiff(a, b)
    if dm is None:
        return None, "normal forms of the exact shapes have different command structure"
    if dm <= 1e-7:
        return "F6-K1-normalize-rounding-straddle", f"normal forms of the unrounded shapes agree to {dm:.2g}; after 3-decimal source rounding / float noise they round to different multiples of {tol}"
    dmy, ymax = _maxdiff(a, b, negate_y=True)
    if dmy <= 1e-7 and ymax <= 5 * tol * 1.0001:
        return "F6-K2-normalize-insignificant-y-mirror", f"normal forms of the unrounded shapes are mirror images in y and no vector has |y| > 5 x {tol}"
    # which vector counts as "first significant" is decided by `abs(v) > 5 * tolerance`: a value exactly on the
    # threshold falls on either side with float noise.  Re-normalise with the tolerance nudged by 1e-6 relative.
    for f in (1 + 1e-6, 1 - 1e-6):
        e1, e2 = normal_form_pre(exact_donor_d, tol * f), normal_form_pre(exact_copy_d, tol * f)
        if e1 is None or e2 is None:
            continue
        d1, _ = _maxdiff(parse_rel(e1), parse_rel(e2))
        if d1 is not None and d1 <= 1e-7:
            return "F6-K4-normalize-significance-threshold-straddle", f"a vector component lies exactly on the significance threshold 5 x {tol}: with the tolerance nudged by 1e-6 the normal forms agree to {d1:.2g}"
    return None, f"picosvg normal forms of the two congruent shapes differ by {dm:.4g} even without rounding"


def stored_outlines(built, fmt):
    """per input: list (z-order) of the identifier of the outline each layer is drawn from"""
    from vf.checks import render_common as rc
    from vf.oracle import colreval

    font = built.font
    out = []
    if fmt == "picosvg":
        for i, inp in enumerate(built.inputs):
            name = rc.reach(font, inp.codepoints)[0]
            layers, _ = rc.svg_glyph_layers(font, font.getGlyphID(name), [], {})
            ids = []
            for k, l in enumerate(layers or []):
                ids.append(l.ref if (l.ref and l.transformed) or l.ref else f"anon:{i}:{k}")
            out.append(ids)
        return out
    ev = colreval.Evaluator(font)
    glyf = font["glyf"]

    def base(g):
        gl = glyf[g]
        seen = 0
        while gl.isComposite() and len(gl.components) == 1 and seen < 8:
            g = gl.components[0].glyphName
            gl = glyf[g]
            seen += 1
        return g

    for inp in built.inputs:
        name = rc.reach(font, inp.codepoints)[0]
        layers = ev.display_list(name)
        out.append([base(l.ref) for l in layers])
    return out


def gen_decoy(case):
    """Two related classes in one font: a plain polygon X and rings Y, Y' that have X's contour as their outer contour
    (different holes).  Copies are pure integer translations (identical relative path data, so no normalisation
    mechanism of F6 can apply): every class must be stored exactly once, whatever order the shapes arrive in."""
    r = common.rng(ID, "decoy", case["seed"], case["i"])
    fmt = r.choice(FORMATS)
    vb = r.choice([64, 100, 128, 256])
    scale = r.choice([4, 8, 10])
    size = max(6, round(vb * r.uniform(0.08, 0.14)))
    X = proto(r, "polygon", size, True)
    outer = [pts[0] for c, pts in X if c != "Z"]

    def ring(k):
        inner = [(float(round(x * k)), float(round(y * k))) for x, y in outer]
        return X + [("M", [inner[-1]])] + [("L", [q]) for q in reversed(inner[:-1])] + [("Z", [])]

    classes = {"X": X, "Y": ring(0.5), "Y2": ring(0.3)}
    if to_d(classes["Y"], 0) == to_d(classes["Y2"], 0):
        del classes["Y2"]
    nd = 0
    # X, then a relative of X, then X again - and the same with the roles swapped
    seq = r.choice([["X", "Y", "X"], ["Y", "X", "Y"], ["Y", "Y2", "Y"], ["X", "Y", "Y2", "X", "Y"]])
    if r.random() < 0.35:
        # a near-duplicate: one vertex moved by more than the reuse tolerance, yet by so little that the (coarser)
        # normal form is the same - not a copy of X, but it lands on X's cache key
        vb = r.choice([256, 1000])
        size = round(vb * 0.2)
        X = proto(r, "polygon", size, True)
        tol_ = 0.1
        j = r.randrange(2, len(X) - 1)
        Xn = [(c_, [(p_[0] + (1.3 * tol_ if i_ == j else 0.0), p_[1]) for p_ in pts_]) for i_, (c_, pts_) in enumerate(X)]
        classes = {"X": X, "Xn": Xn}
        seq = r.choice([["X", "Xn", "X"], ["Xn", "X", "Xn"], ["X", "Xn", "Xn", "X"]])
        nd = 2
    seq = [k for k in seq if k in classes] + [r.choice(list(classes)) for _ in range(r.randint(0, 3))]
    nglyphs = r.randint(1, 3)
    per = [[] for _ in range(nglyphs)]
    for n, k in enumerate(seq):
        per[min(nglyphs - 1, n * nglyphs // len(seq))].append(k)
    glyphs, labels = [], []
    for g in range(nglyphs):
        paths = ""
        for k in per[g]:
            iso = (None, 0, float(r.randint(int(vb * 0.3), int(vb * 0.7))), float(r.randint(int(vb * 0.3), int(vb * 0.7))))
            paths += f'<path d="{to_d(place(classes[k], iso), nd)}" fill="#{r.randint(0, 0xFFFFFF):06x}"/>'
            labels.append(k)
        glyphs.append(f'<svg xmlns="http://www.w3.org/2000/svg" viewBox="0 0 {vb} {vb}"><defs/>{paths}</svg>')
    glyphs = [g for g in glyphs if "<path" in g]
    cfg = {"color_format": fmt, "upem": vb * scale, "ascender": vb * scale, "descender": 0, "width": vb * scale, "reuse_tolerance": 0.1 if nd else r.choice([0.1, 0.1, 0.2]), "clip_to_viewbox": False, "keep_glyph_names": True}
    sources = [{"svg": s_, "codepoints": [0xE000 + i]} for i, s_ in enumerate(glyphs)]
    return sources, cfg, labels


def run_decoy(case):
    from vf.drive import inproc
    from vf.hooks import contracts

    sources, cfg, labels = gen_decoy(case)
    fmt = cfg["color_format"]
    res = {"counters": {}, "violations": [], "tags": [fmt, "related-classes"]}
    c = res["counters"]
    contracts.install()
    contracts.reset()
    try:
        built = inproc.build(sources, cfg)
    except Exception as e:
        res["violations"].append({"what": f"build raised {type(e).__name__}: {str(e)[:300]}", "trace": traceback.format_exc()[-1200:], "config": cfg})
        return res
    flat = [o for g in stored_outlines(built, fmt) for o in g]
    if len(flat) != len(labels):
        res["violations"].append({"what": f"{len(flat)} layers for {len(labels)} shapes", "config": cfg})
        return res
    c["related_class_fonts"] = 1
    c["related_class_copies"] = len(labels)
    by_class = {}
    for k, oid in zip(labels, flat):
        by_class.setdefault(k, []).append(oid)
    for k, oids in sorted(by_class.items()):
        if len(set(oids)) > 1:
            res["violations"].append({"what": f"{len(oids)} translated copies of one shape (class {k}) are stored as {len(set(oids))} outlines in a font that also holds a shape sharing its outer contour", "labels": labels, "outlines": flat, "config": cfg, "sources": [s_["svg"] for s_ in sources]})
    owners = {}
    for k, oid in zip(labels, flat):
        owners.setdefault(oid, set()).add(k)
    for oid, ks in owners.items():
        # (a near-duplicate may legitimately share X's outline: picosvg solves for a general affine, and for a triangle -
        # or whenever a slight shear absorbs the moved vertex within the tolerance - Xn *is* an affine image of X)
        if len(ks - {"Xn"}) > 1:
            res["violations"].append({"what": f"shapes of different classes {sorted(ks)} are drawn from one outline {oid}", "labels": labels, "outlines": flat, "config": cfg})
    res["nontrivial"] = len(labels) >= 3
    res["key"] = common.sha([sources, cfg])
    return res


def run_case(case):
    from vf.drive import inproc
    from vf.hooks import contracts

    if case["i"] % 12 == 7:
        return run_decoy(case)
    sources, cfg, meta = gen_case(case)
    fmt = cfg["color_format"]
    tier = "exact" if meta["exact"] else "arbitrary"
    res = {"counters": {}, "violations": [], "tags": [fmt, tier, meta["kind"]]}
    c = res["counters"]
    contracts.install()
    try:
        norm = [inproc.picosvg_normal(s["svg"], False) for s in sources]
        if case["i"] % 3 == 0:
            # an earlier build of the same sources in this process, at another tolerance (a long-lived process that
            # builds several fonts): it must leave nothing behind that the next build can see
            other = 1.0 if cfg["reuse_tolerance"] < 0.5 else 0.05
            try:
                inproc.build(sources, dict(cfg, reuse_tolerance=other), normalised=norm)
                c["earlier_build_at_other_tolerance"] = 1
            except Exception:
                c["earlier_build_failed"] = 1
        contracts.reset()
        built = inproc.build(sources, cfg, normalised=norm)
    except Exception as e:
        res["violations"].append({"what": f"build raised {type(e).__name__}: {str(e)[:300]}", "trace": traceback.format_exc()[-1200:], "config": cfg})
        return res
    log = list(contracts.LOG.get("norm") or [])
    outl = stored_outlines(built, fmt)
    flat = [o for g in outl for o in g]
    ncopies = len(meta["isos"])
    if len(flat) != ncopies:
        res["violations"].append({"what": f"{len(flat)} layers for {ncopies} copies", "config": cfg})
        return res
    c["copies"] = ncopies
    c["fonts"] = 1
    distinct = list(dict.fromkeys(flat))
    c[f"{tier}.copies"] = ncopies
    c[f"{tier}.outlines"] = len(distinct)
    # audit every copy that did not come from the first outline
    # H2 log: tries in order of copies (one per copy: each copy is tried, then added when it missed)
    # replay the cache from the log: which donor did each copy's try_reuse actually face?
    tries, donors_at_try = [], []
    cache = {}
    first_add = None
    for e in log:
        if e["op"] == "try":
            tries.append(e)
            donors_at_try.append(cache.get(e["post"]))
        elif e["op"] == "add":
            cache[e["post"]] = e
            if first_add is None:
                first_add = e
    donor_entry = first_add
    created = {}
    for k, oid in enumerate(flat):
        created.setdefault(oid, k)
    misses = 0
    for k, oid in enumerate(flat):
        if oid == flat[0] or created[oid] != k:
            continue  # drawn from the first outline, or from an outline an earlier (audited) copy created
        mir = meta["isos"][k][0] is not None
        entry = tries[k] if k < len(tries) else None
        faced = donors_at_try[k] if k < len(donors_at_try) else None
        if faced is not None:
            # the cache held a shape with the same normal form: audit against *that* donor
            j = next((i for i, t in enumerate(tries) if t["path"] == faced["path"]), 0)
            mech, why = classify_miss(faced, entry, meta["exact_paths"][j], meta["exact_paths"][k], cfg["reuse_tolerance"])
        else:
            mech, why = classify_miss(donor_entry, entry, meta["exact_paths"][0], meta["exact_paths"][k], cfg["reuse_tolerance"])
        if mech == "not-representable":
            c["not_representable"] = c.get("not_representable", 0) + 1
            continue
        misses += 1
        c[f"{tier}.misses"] = c.get(f"{tier}.misses", 0) + 1
        if mech:
            c[mech] = c.get(mech, 0) + 1
        res["violations"].append(
            {
                "what": f"congruent copy {k} ({'mirrored ' if mir else ''}{tier} isometry) is stored as a separate outline: {why}",
                "mechanism": mech,
                "config": cfg,
                "kind": meta["kind"],
                "iso": meta["isos"][k],
                "donor_path": donor_entry and donor_entry.get("path"),
                "copy_path": entry and entry.get("path"),
                "donor_post": donor_entry and donor_entry.get("post"),
                "copy_post": entry and entry.get("post"),
                "outlines": flat,
            }
        )
    c["hits"] = ncopies - 1 - misses
    # control: with reuse disabled the copies must be stored separately (shows the observation can tell)
    if case["i"] % 4 == 0:
        try:
            contracts.reset()
            b2 = inproc.build(sources, dict(cfg, reuse_tolerance=-1), normalised=norm)
            flat2 = [o for g in stored_outlines(b2, fmt) for o in g]
            c["control_builds"] = 1
            if len(set(flat2)) != len(flat2):
                res["violations"].append({"what": "reuse disabled, yet copies share an outline", "config": cfg, "outlines": flat2})
        except Exception as e:
            res["violations"].append({"what": f"control build raised {type(e).__name__}: {e}", "config": cfg})
    res["nontrivial"] = ncopies >= 2
    res["key"] = common.sha([sources, cfg])
    if case["i"] < 2:
        res["sample"] = {"config": cfg, "tier": tier, "kind": meta["kind"], "source0": sources[0]["svg"][:500], "outlines": outl}
    return res


def finish(agg):
    c = agg["counters"]
    inc = []
    for k in ("exact.copies", "arbitrary.copies", "hits", "control_builds", "related_class_copies"):
        if c.get(k, 0) == 0:
            inc.append(f"deciding monitor/branch never reached: {k}")
    for f in set(FORMATS):
        if agg["tags"].get(f, 0) == 0:
            inc.append(f"format never built: {f}")
    cov = {}
    for t in ("exact", "arbitrary"):
        n = c.get(f"{t}.copies", 0)
        cov[f"{t}_tier"] = {"copies": n, "misses": c.get(f"{t}.misses", 0)}
    cov["K1_hits"] = c.get("F6-K1-normalize-rounding-straddle", 0)
    cov["K2_hits"] = c.get("F6-K2-normalize-insignificant-y-mirror", 0)
    cov["K3_hits"] = c.get("F6-K3-affine-between-none", 0)
    cov["K4_hits"] = c.get("F6-K4-normalize-significance-threshold-straddle", 0)
    return {"inconclusive": inc, "coverage": cov}
