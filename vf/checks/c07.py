"""C07 — Every emitted font is structurally valid for its consumers."""
import traceback

from vf import common
from vf.gen import svggen

ID = "C07"
LEVEL = "exploration"
RULE = (
    "case = one font written by the real pipeline: all 13 colour formats x .ttf/.otf, sources from the generators of "
    "C01 (paint-rich), C02 (shared shapes -> multi-glyph SVG documents and glyph reshuffle), C03 and C04 (hostile sequences, "
    "bitmaps), one case in sixty a variable font built by the CLI from C18's master generator, some with a coloured .notdef (gid gap -> several CBDT runs, SVG document for gid 0).  Each file is loaded "
    "lazy=False, fully decompiled, re-saved and reloaded (table-by-table XML equality) and its raw bytes are parsed by "
    "struct-level validators for COLR v0/v1 records, SVG document index + XML cross references, CBLC/CBDT index runs, "
    "sbix, and glyph-set agreement of cmap/hmtx/loca|CFF/maxp/post incl. the post-format rule.  Non-trivial = font with a "
    "colour table and >= 2 colour glyphs; distinct = hash of the font bytes."
)
ASSUMPTIONS = ["validators written from the OpenType spec (vf/oracle/structure.py)", "maximum_color outputs are validated by the same code in C12"]
N = {"quick": 1560, "thorough": 12000}


def plan(tier, seed):
    return [{"id": f"{seed}-{i}", "i": i} for i in range(N[tier])]


def run_vf(case):
    """A variable font written by the real CLI (write_font per master -> write_variable_font), validated like any other."""
    import shutil

    import toml

    from vf.checks import c18
    from vf.drive import cli
    from vf.oracle import structure

    r = common.rng(ID, "vf", case["seed"], case["i"])
    spec = c18.gen(r)
    keep = r.random() < 0.5
    res = {"counters": {}, "violations": [], "tags": ["variable-font", "glyf_colr_1", "names" if keep else "nonames"]}
    root = common.mkscratch("c07vf-")
    try:
        names = ["emoji_u%x.svg" % (0x1F600 + g) for g in range(len(spec["glyphs"]))]
        cfg = {"output_file": "VF.ttf", "color_format": "glyf_colr_1", "upem": spec["upem"], "ascender": spec["asc"], "descender": spec["desc"], "width": spec["upem"], "clip_to_viewbox": False, "keep_glyph_names": keep,
               "axis": {tag: {"name": nm_, "default": spec["default"][tag]} for tag, nm_ in spec["axes"]}, "master": {}}
        for m, loc in enumerate(spec["locations"]):
            d = root / spec["names"][m]
            d.mkdir(parents=True)
            for g, n in enumerate(names):
                (d / n).write_text(c18.svg_for(spec, g, m))
            cfg["master"][spec["names"][m]] = {"style_name": "M%d" % m, "position": dict(loc), "srcs": [f"{spec['names'][m]}/*.svg"]}
        (root / "vf.toml").write_text(toml.dumps(cfg))
        rcode, out = cli.nanoemoji(["--build_dir", str(root / "build"), "vf.toml"], root, cli.env_for(events=root / "ev.jsonl"), timeout=600)
        if rcode != 0:
            res["counters"]["vf_build_failed"] = 1  # C18 owns "compatible masters build"; nothing to validate here
            return res
        data = (root / "build" / "VF.ttf").read_bytes()
        problems, facts = structure.validate(data, keep_glyph_names=keep)
        for p in problems:
            res["violations"].append({"what": "variable font: " + p, "keep_glyph_names": keep, "config": {k: v for k, v in cfg.items() if k not in ("master",)}})
        res["counters"]["fonts"] = 1
        res["counters"]["variable_fonts"] = 1
        res["nontrivial"] = True
        res["key"] = common.sha(data)
    finally:
        shutil.rmtree(root, ignore_errors=True)
    return res


def run_case(case):
    if case["i"] % 60 == 59:
        return run_vf(case)
    from vf.checks import c01, c02, c03, c04, render_common as rc
    from vf.drive import inproc
    from vf.oracle import structure

    r = common.rng(ID, case["seed"], case["i"])
    which = ["c04", "c04", "c02", "c01", "c03", "c02", "dotted-names"][case["i"] % 7]
    sub = dict(case)
    pngs = None
    use_fn = False
    if which == "c04":
        sources, cfg = c04.gen_case(sub)
        for s in sources:
            s["name"] = inproc.filename_for(tuple(s["codepoints"]), s["scheme"])
        if cfg["color_format"] in ("cbdt", "sbix"):
            res_px = cfg["bitmap_resolution"]
            pngs = [c04.make_png((max(1, min(255, round(res_px * s["aspect"][0] / s["aspect"][1]))), res_px), s["colour"], i) for i, s in enumerate(sources)]
        use_fn = True
    elif which == "dotted-names":
        # glyph names as a custom glyph map (or a font given to maximum_color) may spell them: dots, one name a dotted
        # prefix of another, names that look like nanoemoji's own layer names - with shapes shared between them
        svgs, _ = svggen.recurrence_set(r, r.randint(3, 6), svggen.FontPalette(r), same_vb=True, tkinds=["translate", "translate", "uscale", "mirror"])
        pool = ["base", "smile.alt", "smile", "smile.alt.1", "a.b.c", "a.b", "a", "x.0", "x", "g_41.0", "glyph1", "y.notdef"]
        r.shuffle(pool)
        cfg = svggen.font_config(r, ("picosvg", "picosvg", "picosvgz", "glyf_colr_1", "cff_colr_1", "glyf_colr_0", "untouchedsvg"), user_transform=False, small_upem=False)
        cfg["reuse_tolerance"] = 0.1
        solid = cfg["color_format"].endswith("colr_0")
        if solid:
            svgs, _ = svggen.recurrence_set(r, len(svgs), svggen.FontPalette(r), same_vb=True, gradients=False, tkinds=["translate", "uscale"])
        cps = r.sample(range(0x1F600, 0x1F680), len(svgs))
        sources = [{"svg": s_, "codepoints": [cp], "glyph_name": nm} for s_, cp, nm in zip(svgs, cps, pool)]
    elif which == "c02":
        sources, cfg, _ = c02.gen_case(sub)
    elif which == "c01":
        sources, cfg, _ = c01.gen_case(sub)
    else:
        sources, cfg, _ = c03.gen_case(sub)
    fmt = cfg["color_format"]
    source_glyph_ids = []
    if fmt.startswith("untouchedsvg") and common.rng(ID, "ids", case["seed"], case["i"]).random() < 0.6:
        # raw sources whose own ids begin with "glyph" (glyph-petal, glyphFill, ...): they are referenced from inside
        # the source and are not the glyph<ID> elements nanoemoji adds
        import re as _re

        r3 = common.rng(ID, "ids2", case["seed"], case["i"])
        for s_ in sources:
            if source_glyph_ids:
                break
            for old_id in set(_re.findall(r'\bid="([^"]+)"', s_["svg"])):
                new_id = "glyph" + r3.choice(["-", "Fill", "_", ""]) + old_id
                if r3.random() < 0.12 and not source_glyph_ids:
                    # exactly the spelling nanoemoji itself uses for glyph elements (an SVG lifted from another OT-SVG font)
                    new_id = "glyph%d" % r3.randint(1, 4)
                    source_glyph_ids.append(new_id)
                s_["svg"] = s_["svg"].replace(f'id="{old_id}"', f'id="{new_id}"').replace(f"#{old_id})", f"#{new_id})").replace(f'"#{old_id}"', f'"#{new_id}"')
        cfg = dict(cfg)
    # the outline flavour follows the output file's extension, not the colour format's name: cross them
    # (OT-SVG formats: .ttf only, per the statement)
    ext = "default"
    if "svg" not in fmt and r.random() < 0.3:
        ext = ".ttf" if fmt.startswith("cff") else ".otf"
        cfg["output_file"] = "Font" + ext
    res = {"counters": {}, "violations": [], "tags": [fmt, which] + (["crossed-extension" + ext] if ext != "default" else [])}
    c = res["counters"]
    notdef = False
    if r.random() < 0.3:
        # a coloured .notdef: gid 0 gets artwork, colour glyph ids are no longer one run
        nd_pos = r.randint(0, len(sources))
        sources = [{"svg": '<svg xmlns="http://www.w3.org/2000/svg" viewBox="0 0 100 100"><rect x="10" y="10" width="70" height="80" fill="#102030"/><circle cx="50" cy="50" r="20" fill="red"/></svg>', "codepoints": [], "glyph_name": ".notdef", "name": "notdef.svg"}] + sources
        if pngs is not None:
            pngs = [c04.make_png((cfg["bitmap_resolution"], cfg["bitmap_resolution"]), (1, 2, 3), 999)] + pngs
            pngs.insert(nd_pos, pngs.pop(0))
        sources.insert(nd_pos, sources.pop(0))
        notdef = True
        res["tags"].append("coloured-notdef")
    try:
        built = inproc.build(sources, cfg, use_filenames=use_fn, pngs=pngs)
    except Exception as e:
        if rc.is_overflow_refusal(e) or (isinstance(e, ValueError) and ("already maps to" in str(e) or "Expected uniform scale" in str(e))) or "picosvg" in traceback.format_exc()[-3000:].split("nanoemoji")[0]:
            c["build_refused"] = 1
            return res
        if isinstance(e, AssertionError) and "doesn't look like a path" in str(e):
            c["skipped_empty_path_after_clip"] = 1
            return res
        res["violations"].append({"what": f"build raised {type(e).__name__}: {str(e)[:300]}", "trace": traceback.format_exc()[-1500:], "config": cfg})
        return res
    problems, facts = structure.validate(built.data, keep_glyph_names=built.cfg.keep_glyph_names)
    for p in problems:
        v = {"what": p, "config": cfg, "format": fmt, "coloured_notdef": notdef}
        if source_glyph_ids and f"id {source_glyph_ids[0]!r} used twice" in p:
            # F28: untouchedsvg keeps the source's own ids, one of which is spelled like the glyph element's
            v["mechanism"] = "F28-untouchedsvg-source-id-spelled-glyphN"
            v["source_id"] = source_glyph_ids[0]
        res["violations"].append(v)
    if source_glyph_ids:
        c["sources_with_an_id_spelled_glyphN"] = 1
    c["fonts"] = 1
    for k in ("colr", "svg_docs", "cblc_bitmaps", "sbix"):
        if facts.get(k):
            c["fonts_with_" + k] = 1
            if k in ("svg_docs", "cblc_bitmaps"):
                c[k] = facts[k]
    if "CBLC" in built.font and len(built.font["CBLC"].strikes) > 1:
        c["cblc_multi_run_fonts"] = 1
    ncol = len([i for i in built.inputs])
    res["nontrivial"] = ncol >= 2 and any(t in built.font for t in ("COLR", "SVG ", "CBDT", "sbix"))
    res["key"] = common.sha(built.data)
    if case["i"] < 2:
        res["sample"] = {"config": cfg, "tables": facts.get("tables"), "generator": which, "size": len(built.data)}
    return res


def finish(agg):
    c = agg["counters"]
    inc = []
    for k in ("fonts_with_colr", "fonts_with_svg_docs", "fonts_with_cblc_bitmaps", "fonts_with_sbix", "cblc_multi_run_fonts", "variable_fonts"):
        if c.get(k, 0) == 0:
            inc.append(f"deciding monitor/branch never reached: {k}")
    from vf.checks.c04 import ALL_FORMATS

    for f in ALL_FORMATS:
        if agg["tags"].get(f, 0) == 0:
            inc.append(f"format never built: {f}")
    return {"inconclusive": inc}
