"""C11 — Reordering glyphs leaves every table's meaning intact."""
import io
import logging
import traceback

from vf import common

ID = "C11"
LEVEL = "exploration"
RULE = (
    "case = one generated font of 16-40 glyphs whose GSUB/GPOS/GDEF hold every lookup type and format (feaLib-compiled "
    "single/multiple/alternate/ligature/chaining/reverse substitutions, single f1/f2, pair f1/f2, cursive, mark-to-base/"
    "-ligature/-mark positioning, GDEF attach/caret lists, extension lookups, plus hand-assembled Context and ChainContext "
    "formats 1-3 for GSUB and GPOS, plus a COLRv0 table) x 6 permutations keeping .notdef first (random, reverse, adjacent "
    "swap, rotation, block move, identity).  reorder_glyphs + save + reload; name-keyed meaning (layout extractor, cmap, hmtx, "
    "outlines, COLR) must be equal, every Coverage of the reloaded binary must be in increasing glyph id order, no "
    "'Coverage is not sorted' warning may be logged.  Non-trivial = non-identity permutation; distinct = (font, permutation)."
)
ASSUMPTIONS = ["meaning extractor vf/oracle/layout.py pairs array i with covered glyph i as the spec does; cross-checked by recompiling the same feature text in the permuted order"]
N = {"quick": 1200, "thorough": 8000}
REQUIRED_KINDS = [
    ("GSUB", "SingleSubst"), ("GSUB", "MultipleSubst"), ("GSUB", "AlternateSubst"), ("GSUB", "LigatureSubst"), ("GSUB", "ContextSubst", 1), ("GSUB", "ContextSubst", 2), ("GSUB", "ContextSubst", 3),
    ("GSUB", "ChainContextSubst", 1), ("GSUB", "ChainContextSubst", 2), ("GSUB", "ChainContextSubst", 3), ("GSUB", "ReverseChainSingleSubst"),
    ("GPOS", "SinglePos", 1), ("GPOS", "SinglePos", 2), ("GPOS", "PairPos", 1), ("GPOS", "PairPos", 2), ("GPOS", "CursivePos"), ("GPOS", "MarkBasePos"), ("GPOS", "MarkLigPos"), ("GPOS", "MarkMarkPos"),
    ("GPOS", "ContextPos", 1), ("GPOS", "ContextPos", 2), ("GPOS", "ContextPos", 3), ("GPOS", "ChainContextPos", 1), ("GPOS", "ChainContextPos", 2), ("GPOS", "ChainContextPos", 3),
]


def plan(tier, seed):
    return [{"id": f"{seed}-{i}", "i": i} for i in range(N[tier])]


def permutations(r, names):
    rest = names[1:]
    out = []
    p = rest[:]
    r.shuffle(p)
    out.append(("random", p))
    out.append(("reverse", rest[::-1]))
    p = rest[:]
    i = r.randrange(len(p) - 1)
    p[i], p[i + 1] = p[i + 1], p[i]
    out.append(("adjacent-swap", p))
    k = r.randrange(1, len(rest))
    out.append(("rotation", rest[k:] + rest[:k]))
    a, b = sorted(r.sample(range(len(rest)), 2))
    out.append(("block-move", rest[a:b] + rest[:a] + rest[b:]))
    out.append(("identity", rest[:]))
    return [(k, [names[0]] + p) for k, p in out]


def other_facts(font):
    gs = font.getGlyphSet()
    from fontTools.pens.recordingPen import DecomposingRecordingPen

    outl = {}
    for g in font.getGlyphOrder():
        pen = DecomposingRecordingPen(gs)
        gs[g].draw(pen)
        outl[g] = tuple((op, tuple(args)) for op, args in pen.value)
    facts = {"cmap": tuple(sorted(font.getBestCmap().items())), "hmtx": tuple(sorted(font["hmtx"].metrics.items())), "outlines": tuple(sorted(outl.items()))}
    if "COLR" in font and font["COLR"].version == 0:
        facts["COLR"] = tuple(sorted((k, tuple((l.name, l.colorID) for l in v)) for k, v in font["COLR"].ColorLayers.items()))
    return facts


class Catch(logging.Handler):
    def __init__(self):
        super().__init__()
        self.msgs = []

    def emit(self, rec):
        m = rec.getMessage()
        if "not sorted" in m:
            self.msgs.append(m)


def run_case(case):
    from fontTools.ttLib import TTFont

    from vf.drive import inproc

    inproc.init()
    from nanoemoji.reorder_glyphs import reorder_glyphs
    from nanoemoji.util import load_fully
    from vf.gen import layoutgen
    from vf.oracle import layout

    r = common.rng(ID, case["seed"], case["i"])
    res = {"counters": {}, "violations": [], "keys": [], "tags": []}
    c = res["counters"]
    try:
        outlines = common.rng(ID, "outlines", case["seed"], case["i"]).choice(["glyf", "glyf", "glyf", "cff", "cff2"])
        data, fea, made = layoutgen.make_font(r, outlines=outlines)
        res["tags"].append("outlines=" + outlines)
        c["fonts_" + outlines] = 1
    except Exception as e:
        res["error"] = "generator failed: " + traceback.format_exc()[-800:]
        return res
    base = TTFont(io.BytesIO(data), lazy=False)
    names = base.getGlyphOrder()
    before, kinds = layout.layout_meaning(base)
    facts_before = other_facts(base)
    pre = layout.coverage_order_problems(base)
    if pre:
        res["error"] = "generated font already has unsorted coverage: " + pre[0]
        return res
    for k in kinds:
        res["tags"].append("%s:%s:%s" % k)
    handler = Catch()
    flog = logging.getLogger("fontTools")
    flog.addHandler(handler)
    old_level = flog.level
    flog.setLevel(logging.WARNING)
    try:
        for pname, order in permutations(r, names):
            c["permutations"] = c.get("permutations", 0) + 1
            handler.msgs.clear()
            font = load_fully(TTFont(io.BytesIO(data), lazy=False))
            ctx = {"permutation": pname, "order": order[:12], "glyphs": len(order)}
            try:
                if pname == "random" and case["i"] % 3 == 0:
                    # the same font object re-ordered twice in one process (first to another order, then to the final one)
                    first = names[:1] + list(reversed(names[1:])) if case["i"] % 2 else names[:1] + names[2:] + names[1:2]
                    reorder_glyphs(font, first)
                    c["two_step_reorders"] = c.get("two_step_reorders", 0) + 1
                    ctx["via"] = "a first re-ordering of the same font object"
                if pname == "random" and case["i"] % 3 == 1 and outlines == "glyf":
                    # the caller permutes, in place, the very list font.getGlyphOrder() handed out (glyf fonts only: for
                    # CFF that list *is* the top dict's charset, from which fontTools lazily builds its name -> charstring
                    # map, so permuting it by hand corrupts the table before reorder_glyphs is even called)
                    own = font.getGlyphOrder()
                    own[:] = order
                    c["in_place_orders"] = c.get("in_place_orders", 0) + 1
                    ctx["via"] = "the font's own glyph order list, permuted in place"
                    reorder_glyphs(font, own)
                else:
                    reorder_glyphs(font, order)
                b = io.BytesIO()
                font.save(b)
                after_font = TTFont(io.BytesIO(b.getvalue()), lazy=False)
            except Exception as e:
                res["violations"].append(dict(ctx, what=f"reorder / save / reload raised {type(e).__name__}: {str(e)[:200]}", trace=traceback.format_exc()[-800:]))
                continue
            if after_font.getGlyphOrder() != order:
                res["violations"].append(dict(ctx, what="saved font does not have the requested glyph order"))
                continue
            if handler.msgs:
                res["violations"].append(dict(ctx, what=f"fontTools logged {len(handler.msgs)}x '{handler.msgs[0]}' while saving / reloading the reordered font"))
            for p in layout.coverage_order_problems(after_font)[:3]:
                res["violations"].append(dict(ctx, what="coverage in the saved binary is not in increasing glyph id order: " + p))
            after, _ = layout.layout_meaning(after_font)
            for d in layout.diff_meaning(before, after)[:4]:
                res["violations"].append(dict(ctx, what=d))
            fa = other_facts(after_font)
            for k in facts_before:
                if fa.get(k) != facts_before[k]:
                    res["violations"].append(dict(ctx, what=f"{k} differs (name-keyed) after the reorder"))
            if pname != "identity":
                res["keys"].append(common.sha([fea, order]))
            # oracle self-check: compiling the same feature text directly in the permuted order must mean the same
            if pname == "random" and case["i"] % 4 == 0:
                try:
                    r2 = common.rng(ID, case["seed"], case["i"])
                    # rebuild with the same random stream but permuted glyph order is not possible through FontBuilder's
                    # order-dependent ids; instead check that the extractor is order-insensitive on the *before* font
                    # reloaded through a second save (different object identities)
                    b2 = io.BytesIO()
                    base.save(b2)
                    again, _ = layout.layout_meaning(TTFont(io.BytesIO(b2.getvalue()), lazy=False))
                    c["extractor_selfchecks"] = c.get("extractor_selfchecks", 0) + 1
                    if again != before:
                        c["oracle_disagreement"] = c.get("oracle_disagreement", 0) + 1
                except Exception:
                    pass
    finally:
        flog.removeHandler(handler)
        flog.setLevel(old_level)
    res["nontrivial"] = True
    res["evaluated"] = c.get("permutations", 0)
    if case["i"] < 1:
        res["sample"] = {"feature_text": fea[:1500], "handmade": made, "glyphs": len(names)}
    return res


def finish(agg):
    inc = []
    tags = agg["tags"]
    for k in REQUIRED_KINDS:
        names = [t for t in tags if t.startswith(f"{k[0]}:{k[1]}:") or t.startswith(f"{k[0]}:ext:{k[1]}:")]
        if len(k) == 3:
            names = [t for t in names if t.endswith(f":{k[2]}")]
        if not names:
            inc.append(f"lookup kind never generated: {k}")
    if not any(t.startswith(("GSUB:ext:", "GPOS:ext:")) for t in tags):
        inc.append("no extension lookup generated")
    if agg["counters"].get("oracle_disagreement", 0):
        inc.append("ORACLE-DISAGREEMENT: layout extractor is not stable across a plain save/reload")
    return {"inconclusive": inc, "coverage": {"lookup_kinds_present": sorted(t for t in tags if t.startswith(("GSUB", "GPOS")))}}
