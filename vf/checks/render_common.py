"""Shared decision procedures for the rendering properties (C01, C03, C05, C06, C12, C18)."""
import numpy as np

from vf.oracle import colreval, compare, geom, shaper, svgeval


def is_overflow_refusal(e):
    """An explicit error because a value does not fit an OpenType field (never a silent wrap)."""
    import struct

    if isinstance(e, OverflowError):
        return True
    msg = str(e)
    if isinstance(e, (ValueError, struct.error, AssertionError)) and ("does not fit in format" in msg or "format requires" in msg or "out of range" in msg or "out of bounds" in msg):
        return True
    import re as _re

    if isinstance(e, AssertionError) and _re.match(r"^\(-?\d+(\.\d+)?, '", msg):
        return True  # fontTools: (value, type, field, ...) does not fit the field
    c = e.__cause__ or e.__context__
    return bool(c is not None and c is not e and is_overflow_refusal(c))


CLI_REFUSAL_MARKS = ("OverflowError", "does not fit in format", "format requires", "out of bounds", "out of range", "struct.error")


def cli_refusal(output):
    """The text of a failed CLI build shows an explicit does-not-fit error (the CLI counterpart of is_overflow_refusal)."""
    import re as _re

    return any(k in output for k in CLI_REFUSAL_MARKS) or bool(_re.search(r"AssertionError: \(-?\d+(\.\d+)?, '", output))


def user_matrix(cfg):
    t = cfg.transform
    return geom.aff(t.a, t.b, t.c, t.d, t.e, t.f)


def expected_advances(cfg, vb):
    """max(width, round(em * w / h)); both roundings of an exact .5 are accepted."""
    import math

    em = cfg.ascender - cfg.descender
    x = em * vb[2] / vb[3]
    cands = {math.floor(x + 0.5), round(x)}
    if abs(x - round(x)) < 1e-6:
        cands = {round(x)}
    return {max(cfg.width, int(c)) for c in cands}


def reach(font, codepoints):
    g = shaper.shape(font, list(codepoints))
    return g


def ref_layers_for(built, i, adv):
    cfg = built.cfg
    src = built.picosvgs[i]
    vb = svgeval.view_box(src)
    A = svgeval.A_ref(vb, cfg.ascender, cfg.descender, adv, user_matrix(cfg))
    return svgeval.display_list(src, A), vb


def tol_for(cfg, output="colr"):
    tau = cfg.reuse_tolerance if cfg.reuse_tolerance and cfg.reuse_tolerance > 0 else 0.0
    return compare.Tol(cfg.upem, output=output, tau_seg=tau, truetype=cfg.color_format.startswith("glyf"))


def _cff_wrapped(font, glyph_name):
    if not glyph_name:
        return False
    try:
        from fontTools.pens.recordingPen import RecordingPen

        pen = RecordingPen()
        font.getGlyphSet()[glyph_name].draw(pen)
        vals = [v for _, pts in pen.value for pt in pts for v in pt]
        # (rounded CFF outlines never carry fractions; a wrapped delta leaves one next to coordinates that are far out -
        # half the 16-bit range at upem 16384, a quarter of it when a huge shape sits in a upem 2048 font)
        return any(abs(v - round(v)) > 1e-6 for v in vals) and any(abs(v) > 8000 for v in vals)
    except Exception:
        return False


def check_colr_font(built, want_clip_check=True):
    """Every input of a COLR build: glyph reached from its codepoints paints what the source paints.

    Returns (problems, stats)."""
    cfg, font = built.cfg, built.font
    problems = []
    stats = {"glyphs": 0, "layers": 0, "gradient_layers": 0, "groups": 0, "max_h_over_eps": 0.0, "max_h": 0.0, "max_colour_excess": 0.0, "undecided_gradient_layers": 0, "transformed_layers": 0, "nontrivial_glyphs": 0}
    if "COLR" not in font:
        # legal only when no source paints anything that survives on the integer grid
        for i, inp in enumerate(built.inputs):
            if not inp.codepoints:
                continue
            ref, _ = ref_layers_for(built, i, cfg.width or cfg.upem)
            if [l for l in ref if l.contours and not compare.negligible(l)]:
                problems.append({"what": "source paints but the font has no COLR table", "input": i, "codepoints": list(inp.codepoints)})
        stats["fonts_without_colr"] = 1
        return problems, stats
    ev = colreval.Evaluator(font)
    tol = tol_for(cfg)
    for i, inp in enumerate(built.inputs):
        if not inp.codepoints:
            continue
        reached = reach(font, inp.codepoints)
        if len(reached) != 1:
            problems.append({"what": "codepoints do not shape to one glyph", "input": i, "codepoints": list(inp.codepoints), "reached": reached})
            continue
        name = reached[0]
        adv = font["hmtx"][name][0]
        ref, vb = ref_layers_for(built, i, adv)
        ref = [l for l in ref if l.contours]
        stats["glyphs"] += 1
        if not ev.has_glyph(name):
            if ref:
                problems.append({"what": "source paints but glyph has no colour record", "input": i, "glyph": name, "ref_layers": len(ref)})
            continue
        try:
            got = ev.display_list(name)
        except colreval.Unsupported as e:
            problems.append({"what": f"emitted paint graph outside the evaluated set: {e}", "input": i, "glyph": name})
            continue
        pr, st = compare.compare_layers(ref, got, tol)
        for p in pr:
            p.update({"input": i, "glyph": name, "codepoints": list(inp.codepoints)})
            rb = p.get("ref_bbox")
            if rb and cfg.color_format.startswith("cff") and (max(rb[2] - rb[0], rb[3] - rb[1]) > 32767 or _cff_wrapped(font, p.get("got_ref"))):
                # a contour spanning more than a Type 2 charstring operand can hold: the encoder wraps the delta (the
                # stored outline - possibly a donor that this layer re-uses at a smaller scale - then carries
                # fractional coordinates next to values beyond +-16000, which rounded CFF outlines never do)
                p["mechanism"] = "F12-cff-charstring-delta-overflow"
        problems.extend(pr)
        stats["layers"] += len(ref)
        stats["gradient_layers"] += st["gradient_layers"]
        stats["undecided_gradient_layers"] += st["undecided_gradient_layers"]
        stats["groups"] += len({t for l in ref for t, _ in l.groups})
        stats["transformed_layers"] += sum(1 for l in got if l.transformed)
        for k in ("max_h_over_eps", "max_h", "max_colour_excess"):
            stats[k] = max(stats[k], st[k])
        if len(ref) >= 2 or st["gradient_layers"] or any(l.groups for l in ref) or any(l.transformed for l in got):
            stats["nontrivial_glyphs"] += 1
        if want_clip_check and ref:
            box = ev.clip_box(name)
            if box is not None:
                for li, l in enumerate(got):
                    if not l.contours:
                        continue
                    bb = geom.bbox(l.contours)
                    e = (0.5 + 0.001 * cfg.upem) * max(1.0, l.sigma) + 0.5 + l.err + 0.01
                    out = max(box[0] - bb[0], box[1] - bb[1], bb[2] - box[2], bb[3] - box[3])
                    if out > e:
                        problems.append({"what": "clip box cuts painted content", "input": i, "glyph": name, "layer": li, "protrusion": round(out, 3), "allowed": round(e, 3), "clip": box, "layer_bbox": bb})
    return problems, stats


FLIP_Y = geom.aff(1, 0, 0, -1, 0, 0)


def svg_docs(font):
    out = []
    for d in font["SVG "].docList:
        if hasattr(d, "data"):
            out.append((d.data, d.startGlyphID, d.endGlyphID))
        else:
            out.append((d[0], d[1], d[2]))
    return out


def svg_glyph_layers(font, gid, problems=None, ctx=None):
    """Display list (font space, y up) of what an OT-SVG renderer draws for glyph id `gid`."""
    import re

    docs = [d for d in svg_docs(font) if d[1] <= gid <= d[2]]
    if len(docs) != 1:
        if problems is not None:
            problems.append(dict(ctx or {}, what=f"glyph id {gid} covered by {len(docs)} SVG documents"))
        return None, None
    text = docs[0][0]
    n = len(re.findall(r'\bid="glyph%d"' % gid, text))
    if n != 1:
        if problems is not None:
            problems.append(dict(ctx or {}, what=f"document has {n} elements with id glyph{gid}"))
        return None, text
    layers = svgeval.display_list(text, FLIP_Y, only_id=f"glyph{gid}", svg_quantum=0.001)
    return layers, text


def check_picosvg_font(built):
    """OT-SVG (picosvg[z]) build: each source's glyph element renders what the source paints."""
    cfg, font = built.cfg, built.font
    problems = []
    stats = {"glyphs": 0, "layers": 0, "gradient_layers": 0, "use_layers": 0, "max_h_over_eps": 0.0, "max_h": 0.0, "max_colour_excess": 0.0, "undecided_gradient_layers": 0, "nontrivial_glyphs": 0, "docs": len(svg_docs(font)), "multi_glyph_docs": sum(1 for d in svg_docs(font) if d[2] > d[1])}
    scale_vb = {}
    for i, inp in enumerate(built.inputs):
        if not inp.codepoints:
            continue
        reached = reach(font, inp.codepoints)
        ctx = {"input": i, "codepoints": list(inp.codepoints)}
        if len(reached) != 1:
            problems.append(dict(ctx, what="codepoints do not shape to one glyph", reached=reached))
            continue
        name = reached[0]
        gid = font.getGlyphID(name)
        adv = font["hmtx"][name][0]
        ref, vb = ref_layers_for(built, i, adv)
        ref = [l for l in ref if l.contours]
        stats["glyphs"] += 1
        docs = [d for d in svg_docs(font) if d[1] <= gid <= d[2]]
        if not ref and not docs:
            continue  # paints nothing, no document: fine
        got, text = svg_glyph_layers(font, gid, problems, dict(ctx, glyph=name))
        if got is None:
            continue
        got = [l for l in got if l.contours]
        # reuse tolerance is in viewBox units of the glyph: scale to font units
        s = (cfg.ascender - cfg.descender) / vb[3] * max(1.0, geom.sigma_max(user_matrix(cfg)))
        tau = cfg.reuse_tolerance * s if cfg.reuse_tolerance and cfg.reuse_tolerance > 0 else 0.0
        tol = compare.Tol(cfg.upem, output="svg", tau_seg=tau)
        pr, st = compare.compare_layers(ref, got, tol)
        for p in pr:
            p.update(ctx)
            p["glyph"] = name
            if p["what"] == "outline displaced" and "layer" in p and p["layer"] < len(got):
                gl = got[p["layer"]]
                e_svg = getattr(gl, "err_svg", 0.0)
                p["err_svg"] = round(e_svg, 3)
                if p["hausdorff"] <= p["eps_out"] + e_svg:
                    p["mechanism"] = "F8-svg-transform-3-decimals"
        problems.extend(pr)
        stats["layers"] += len(ref)
        stats["gradient_layers"] += st["gradient_layers"]
        stats["undecided_gradient_layers"] += st["undecided_gradient_layers"]
        stats["use_layers"] += sum(1 for l in got if l.transformed)
        for k in ("max_h_over_eps", "max_h", "max_colour_excess"):
            stats[k] = max(stats[k], st[k])
        if len(ref) >= 2 or st["gradient_layers"] or any(l.groups for l in ref) or any(l.transformed for l in got):
            stats["nontrivial_glyphs"] += 1
    return problems, stats


def built_from_cli(sources, cfg, scratch, contracts_on=True):
    """Build `sources` ([{'svg','codepoints'}]) with the real CLI (picosvg, write_glyphmap, write_fea, write_font
    under ninja) and return an object shaped like inproc.Built, taking the *reference* picosvg-normal text from the
    files the picosvg step left in the build directory.  -> (built | None, info)"""
    import os
    from pathlib import Path

    from fontTools.ttLib import TTFont

    from vf.drive import cli, inproc

    inproc.init()
    from nanoemoji import config as cfgmod
    from nanoemoji import glyphmap

    root = Path(scratch)
    src = root / "src"
    files = []
    for i, s in enumerate(sources):
        files.append({"name": inproc.filename_for(tuple(s["codepoints"]), i % 2), "svg": s["svg"]})
    cli.write_sources(src, files)
    b = root / "build"
    flags = ["--build_dir", str(b), "--output_file", "Font.otf" if cfg.get("color_format", "").startswith("cff") else "Font.ttf"]
    for k, v in cfg.items():
        if v is None:
            continue
        if isinstance(v, bool):
            flags.append(f"--{k}" if v else f"--no{k}")
        else:
            flags += [f"--{k}", str(v)]
    ev = root / "ev.jsonl"
    rc, out = cli.nanoemoji(flags + sorted(f["name"] for f in files), src, cli.env_for(events=ev, contracts=contracts_on, ninja_j=4), timeout=600)
    info = {"rc": rc, "output": out if len(out) < 6000 else out[:1500] + "\n...\n" + out[-4000:], "contract_events": [e for e in cli.events(ev) if e["kind"] in ("contracts", "contracts_error")]}
    if rc != 0:
        return None, info
    cwd = os.getcwd()
    try:
        os.chdir(b)
        fcfg = cfgmod.load(b / "Font.toml")
        maps = glyphmap.parse_csv(str(b / "Font.glyphmap"))
    finally:
        os.chdir(cwd)
    from nanoemoji.write_font import InputGlyph

    by_name = {f["name"]: f for f in files}
    inputs, picos = [], []
    for m in maps:
        p = (b / m.svg_file) if m.svg_file else None
        picos.append(p.read_text() if p is not None and fcfg.has_picosvgs else None)
        inputs.append(InputGlyph(m.svg_file, m.bitmap_file, m.codepoints, m.glyph_name, None, None))
    path = b / Path(fcfg.output_file).name
    data = path.read_bytes()
    import io

    font = TTFont(io.BytesIO(data), lazy=False)
    return inproc.Built(fcfg, inputs, picos, font, data, None), info
