"""Shared decision procedures for the rendering properties (C01, C03, C05, C06, C12, C18)."""
import numpy as np

from vf.oracle import colreval, compare, geom, shaper, svgeval


def user_matrix(cfg):
    t = cfg.transform
    return geom.aff(t.a, t.b, t.c, t.d, t.e, t.f)


def expected_advances(cfg, vb):
    """max(width, round(em * w / h)); both roundings of an exact .5 are accepted."""
    import math

    em = cfg.ascender - cfg.descender
    x = em * vb[2] / vb[3]
    cands = {math.floor(x + 0.5), round(x)}
    if abs(x - round(x)) < 1e-6:
        cands = {round(x)}
    return {max(cfg.width, int(c)) for c in cands}


def reach(font, codepoints):
    g = shaper.shape(font, list(codepoints))
    return g


def ref_layers_for(built, i, adv):
    cfg = built.cfg
    src = built.picosvgs[i]
    vb = svgeval.view_box(src)
    A = svgeval.A_ref(vb, cfg.ascender, cfg.descender, adv, user_matrix(cfg))
    return svgeval.display_list(src, A), vb


def tol_for(cfg, output="colr"):
    tau = cfg.reuse_tolerance if cfg.reuse_tolerance and cfg.reuse_tolerance > 0 else 0.0
    return compare.Tol(cfg.upem, output=output, tau_seg=tau, truetype=cfg.color_format.startswith("glyf"))


def check_colr_font(built, want_clip_check=True):
    """Every input of a COLR build: glyph reached from its codepoints paints what the source paints.

    Returns (problems, stats)."""
    cfg, font = built.cfg, built.font
    problems = []
    stats = {"glyphs": 0, "layers": 0, "gradient_layers": 0, "groups": 0, "max_h_over_eps": 0.0, "max_h": 0.0, "max_colour_excess": 0.0, "undecided_gradient_layers": 0, "transformed_layers": 0, "nontrivial_glyphs": 0}
    ev = colreval.Evaluator(font)
    tol = tol_for(cfg)
    for i, inp in enumerate(built.inputs):
        if not inp.codepoints:
            continue
        reached = reach(font, inp.codepoints)
        if len(reached) != 1:
            problems.append({"what": "codepoints do not shape to one glyph", "input": i, "codepoints": list(inp.codepoints), "reached": reached})
            continue
        name = reached[0]
        adv = font["hmtx"][name][0]
        ref, vb = ref_layers_for(built, i, adv)
        ref = [l for l in ref if l.contours]
        stats["glyphs"] += 1
        if not ev.has_glyph(name):
            if ref:
                problems.append({"what": "source paints but glyph has no colour record", "input": i, "glyph": name, "ref_layers": len(ref)})
            continue
        try:
            got = ev.display_list(name)
        except colreval.Unsupported as e:
            problems.append({"what": f"emitted paint graph outside the evaluated set: {e}", "input": i, "glyph": name})
            continue
        pr, st = compare.compare_layers(ref, got, tol)
        for p in pr:
            p.update({"input": i, "glyph": name, "codepoints": list(inp.codepoints)})
        problems.extend(pr)
        stats["layers"] += len(ref)
        stats["gradient_layers"] += st["gradient_layers"]
        stats["undecided_gradient_layers"] += st["undecided_gradient_layers"]
        stats["groups"] += len({t for l in ref for t, _ in l.groups})
        stats["transformed_layers"] += sum(1 for l in got if l.transformed)
        for k in ("max_h_over_eps", "max_h", "max_colour_excess"):
            stats[k] = max(stats[k], st[k])
        if len(ref) >= 2 or st["gradient_layers"] or any(l.groups for l in ref) or any(l.transformed for l in got):
            stats["nontrivial_glyphs"] += 1
        if want_clip_check and ref:
            box = ev.clip_box(name)
            if box is not None:
                for li, l in enumerate(got):
                    if not l.contours:
                        continue
                    bb = geom.bbox(l.contours)
                    e = 1.0 * max(1.0, l.sigma) + l.err + 0.01
                    out = max(box[0] - bb[0], box[1] - bb[1], bb[2] - box[2], bb[3] - box[3])
                    if out > e:
                        problems.append({"what": "clip box cuts painted content", "input": i, "glyph": name, "layer": li, "protrusion": round(out, 3), "allowed": round(e, 3), "clip": box, "layer_bbox": bb})
    return problems, stats
