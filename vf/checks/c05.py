"""C05 — A COLRv1 clip box never cuts painted content."""
import traceback

from vf import common
from vf.checks import c01
from vf.gen import svggen

ID = "C05"
LEVEL = "exploration"
RULE = (
    "case = one COLRv1 font (1-5 generated sources; emphasis on rotated/reflected/scaled reuse, user transforms, content "
    "outside the viewBox with clipping off, clipbox_quantization in {default, 1, arbitrary}); for every colour glyph the "
    "ClipBox read from the binary is checked against (a) tight bounds of each source shape placed by the statement's affine, "
    "(b) the compiled outlines pushed through the paint transforms, (c) the quantisation step, (d) absence for glyphs that "
    "paint nothing, (e) fontTools' own computeClipBox.  Non-trivial = glyph with a clip box and >= 1 painted layer; "
    "distinct = hash of (sources, config)."
)
ASSUMPTIONS = [
    "picosvg-normal source is the reference; shapes are compared with the tolerance of C01",
    "allowed protrusion of compiled outlines: (0.5 + 0.001 upem) * max(1, sigma(placing transform)) + 0.5 + fixed-point field error",
]
N = {"quick": 640, "thorough": 8000}


def plan(tier, seed):
    return [{"id": f"{seed}-{i}", "i": i} for i in range(N[tier])]


def gen_case(case):
    r = common.rng(ID, case["seed"], case["i"])
    pal = svggen.FontPalette(r)
    cfg = svggen.font_config(r, ("glyf_colr_1", "glyf_colr_1", "cff_colr_1", "cff2_colr_1"))
    cfg["clipbox_quantization"] = r.choice([None, None, 1, 1, r.randint(2, 9), r.randint(10, 200), max(1, cfg["upem"] // 8)])
    if r.random() < 0.5:
        cfg["clip_to_viewbox"] = False
    if r.random() < 0.25 and "transform" not in cfg:
        cfg2 = svggen.font_config(common.rng(ID, "t", case["seed"], case["i"]), ("glyf_colr_1",))
        if "transform" in cfg2:
            cfg["transform"] = cfg2["transform"]
    srcs = []
    mode = r.random()
    meta = {}
    if mode < 0.08:
        # consecutive glyphs whose painted bounds differ by less than (or about) one quantisation step on every side: one
        # a bit wider, the next a bit taller, ...  (boxes that are tempting to share)
        meta["mode"] = "near-equal-bounds"
        vb = 100
        x0, y0, w, h = r.uniform(10, 30), r.uniform(10, 30), r.uniform(30, 50), r.uniform(30, 50)
        for g in range(r.randint(2, 5)):
            j = lambda: r.uniform(-2.5, 2.5)
            kind = r.choice(["rect", "rect", "ellipse"])
            a, b, c_, d_ = x0 + j(), y0 + j(), w + j(), h + j()
            el = f'<rect x="{a:.2f}" y="{b:.2f}" width="{c_:.2f}" height="{d_:.2f}" fill="#{r.randint(0, 0xFFFFFF):06x}"/>' if kind == "rect" else f'<ellipse cx="{a + c_ / 2:.2f}" cy="{b + d_ / 2:.2f}" rx="{c_ / 2:.2f}" ry="{d_ / 2:.2f}" fill="#{r.randint(0, 0xFFFFFF):06x}"/>'
            srcs.append(f'<svg xmlns="http://www.w3.org/2000/svg" viewBox="0 0 {vb} {vb}">{el}</svg>')
        cfg.pop("transform", None)
    elif mode < 0.2:
        meta["mode"] = "grid-recurrence"
        svgs, gcfg, m = svggen.grid_recurrence_set(r, r.randint(2, 3), pal=pal)
        keep_clip = cfg["clip_to_viewbox"]
        cfg.update(gcfg)
        cfg["clip_to_viewbox"] = keep_clip
        cfg.pop("transform", None)
        srcs.extend(svgs)
    elif mode < 0.65:
        meta["mode"] = "recurrence"
        svgs, m = svggen.recurrence_set(r, r.randint(2, 4), pal, same_vb=r.random() < 0.6, tkinds=["rotate", "rot90", "mirror", "uscale", "nuscale", "general", "bigscale", "translate"])
        srcs.extend(svgs)
    else:
        meta["mode"] = "random-outside"
        for g in range(r.randint(1, 3)):
            t, m = svggen.svg_source(r, g, pal, outside=True)
            srcs.append(t)
    if r.random() < 0.15:
        # a glyph that paints nothing
        srcs.append('<svg xmlns="http://www.w3.org/2000/svg" viewBox="0 0 100 100"></svg>')
        meta["empty"] = True
    seqs = svggen.sequences(r, len(srcs), long_names=False)
    sources = [{"svg": s, "codepoints": list(q)} for s, q in zip(srcs, seqs)]
    return sources, cfg, meta


def run_case(case):
    import numpy as np

    from vf.checks import render_common as rc
    from vf.drive import inproc
    from vf.hooks import contracts
    from vf.oracle import colreval, compare, geom

    sources, cfg, meta = gen_case(case)
    res = {"counters": {}, "maxes": {}, "violations": [], "tags": [meta["mode"], "q=%s" % ("default" if cfg["clipbox_quantization"] is None else ("1" if cfg["clipbox_quantization"] == 1 else "n"))]}
    try:
        norm = [inproc.picosvg_normal(s["svg"], cfg["clip_to_viewbox"]) for s in sources]
    except Exception:
        res["counters"]["picosvg_rejected"] = 1
        return res
    if any(c01.has_empty_path(n) for n in norm):
        res["counters"]["skipped_empty_path_after_clip"] = 1
        return res
    contracts.install()
    contracts.reset()
    try:
        built = inproc.build(sources, cfg, normalised=norm)
    except Exception as e:
        if rc.is_overflow_refusal(e):
            res["counters"]["build_refused_overflow"] = 1
            return res
        res["violations"].append({"what": f"build raised {type(e).__name__}: {str(e)[:300]}", "trace": traceback.format_exc()[-1500:], "config": cfg})
        return res
    font = built.font
    c = res["counters"]
    if "COLR" not in font:
        # legal only if no source paints anything
        painted = [i for i in range(len(built.inputs)) if [l for l in rc.ref_layers_for(built, i, 1000)[0] if l.contours]]
        if painted:
            res["violations"].append({"what": "sources paint but the font has no COLR table", "inputs": painted, "config": cfg})
        c["fonts_without_colr"] = 1
        return res
    ev = colreval.Evaluator(font)
    tol = rc.tol_for(built.cfg)
    step = built.cfg.clipbox_quantization or round(0.02 * built.cfg.upem)
    colr = font["COLR"]
    gs = font.getGlyphSet()
    nontriv = 0
    worst_prot, min_slack = None, None
    for i, inp in enumerate(built.inputs):
        reached = rc.reach(font, inp.codepoints)
        if len(reached) != 1:
            res["violations"].append({"what": "codepoints do not shape to one glyph", "input": i, "reached": reached})
            continue
        name = reached[0]
        adv = font["hmtx"][name][0]
        ref, vb = rc.ref_layers_for(built, i, adv)
        ref_all = ref
        ref = [l for l in ref if not compare.negligible(l)]
        box = ev.clip_box(name)
        c["glyphs"] = c.get("glyphs", 0) + 1
        if not ref and ref_all:
            # only slivers that vanish (or degenerate) on the integer grid: a box around them is neither required nor wrong
            c["glyphs_with_only_negligible_shapes"] = c.get("glyphs_with_only_negligible_shapes", 0) + 1
            continue
        if not ref:
            c["empty_glyphs"] = c.get("empty_glyphs", 0) + 1
            if box is not None:
                res["violations"].append({"what": "glyph paints nothing but has a clip box", "glyph": name, "box": box, "config": cfg})
            continue
        if box is None:
            res["violations"].append({"what": "painted glyph has no clip box", "glyph": name, "config": cfg})
            continue
        try:
            got_all = ev.display_list(name)
            got = [l for l in got_all if l.contours]
        except colreval.Unsupported as e:
            res["violations"].append({"what": f"paint graph outside evaluated set: {e}", "glyph": name})
            continue
        nontriv += 1
        c["boxes"] = c.get("boxes", 0) + 1
        # (c) quantisation
        if step > 1 and any(round(v) % step for v in box):
            res["violations"].append({"what": "clip box edge is not a multiple of the quantisation step", "glyph": name, "box": box, "step": step, "config": cfg})
        # (a) source shapes
        pairs = compare.pair_layers(ref_all, got_all)
        if pairs is not None:
            for li, (rl, gl) in enumerate(pairs):
                if not rl.contours or not gl.contours:
                    continue
                bb = geom.bbox(rl.contours)
                e = tol.eps(gl, rl)
                out = max(box[0] - bb[0], box[1] - bb[1], bb[2] - box[2], bb[3] - box[3])
                if out > e:
                    res["violations"].append({"what": "clip box does not contain a source shape", "glyph": name, "layer": li, "outside_by": round(out, 3), "allowed": round(e, 3), "box": box, "shape_bbox": bb, "config": cfg})
        else:
            res["violations"].append({"what": "layer count differs from source", "glyph": name, "ref": len(ref), "got": len(got), "config": cfg})
        # (b) compiled outlines through the paint transforms
        for li, gl in enumerate(got):
            bb = geom.bbox(gl.contours)
            e = (0.5 + 0.001 * built.cfg.upem) * max(1.0, gl.sigma) + 0.5 + gl.err + 0.01  # coordinate rounding (+cu2qu) scaled by the placing transform, + rounding of the box itself
            out = max(box[0] - bb[0], box[1] - bb[1], bb[2] - box[2], bb[3] - box[3])
            ratio = out / e
            worst_prot = ratio if worst_prot is None else max(worst_prot, ratio)
            if gl.transformed:
                c["transformed_layers"] = c.get("transformed_layers", 0) + 1
            if out > e:
                res["violations"].append({"what": "compiled outline protrudes beyond the clip box", "glyph": name, "layer": li, "protrusion": round(out, 3), "allowed": round(e, 3), "box": box, "layer_bbox": bb, "sigma": gl.sigma, "config": cfg})
        # (e) differential: fontTools' own clip box computation
        try:
            paint = ev.base[name]
            ftbox = paint.computeClipBox(colr.table, gs, quantization=1)
            if ftbox is not None:
                c["fonttools_boxes_compared"] = c.get("fonttools_boxes_compared", 0) + 1
                fb = (ftbox.xMin, ftbox.yMin, ftbox.xMax, ftbox.yMax)
                worst = max(box[0] - fb[0], box[1] - fb[1], fb[2] - box[2], fb[3] - box[3])
                smax = max([gl.sigma for gl in got] + [1.0])
                # fontTools bounds *control points* of the compiled (quadratic) outlines, which can lie outside
                # what is painted; informational only, never a verdict
                if worst > 1.0 * smax + 1.01:
                    c["fonttools_control_box_larger"] = c.get("fonttools_control_box_larger", 0) + 1
        except Exception as e:
            c["fonttools_clipbox_errors"] = c.get("fonttools_clipbox_errors", 0) + 1
    for v in contracts.violations():
        res["violations"].append(v)
    c.update(contracts.counters())
    if worst_prot is not None:
        res["maxes"]["max_protrusion_over_allowed"] = worst_prot
    res["nontrivial"] = nontriv > 0
    res["key"] = common.sha([sources, cfg])
    if case["i"] < 2:
        res["sample"] = {"config": cfg, "sources": [s["svg"][:500] for s in sources][:2], "mode": meta}
    return res


def finish(agg):
    c = agg["counters"]
    inc = []
    for k in ("boxes", "H3._bounds", "transformed_layers", "empty_glyphs", "fonttools_boxes_compared"):
        if c.get(k, 0) == 0:
            inc.append(f"deciding monitor/branch never reached: {k}")
    return {"inconclusive": inc}
