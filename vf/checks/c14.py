"""C14 — Bitmap glyphs carry the right image at the right place."""
import traceback

from vf import common

ID = "C14"
LEVEL = "exploration"
RULE = (
    "case = one CBDT or sbix font from 1-6 Pillow-made PNGs of one height (= bitmap_resolution): square with any configured "
    "width, non-square narrow and wide with width 0 (proportional mode) and with a fixed width, upem/ascender/descender "
    "combinations that round awkwardly, resolutions 16..255 and > 255, glyph orders with a gap (coloured .notdef).  Read back "
    "from the binary: stored bytes == the PNG of the source reached by the mini-shaper; ppem == round(upem*h/em); bitmap box vs "
    "the em box [0,advance]x[descender,ascender] scaled by ppem/upem within 1 px per edge (2 px where the ideal offset is "
    "outside int8); pixel advance vs scaled hmtx advance within 1 px; combinations the format cannot hold must raise.  "
    "Non-trivial = non-square bitmap, or width != em, or metrics that do not divide evenly; distinct = (sizes, config)."
)
ASSUMPTIONS = ["CBDT format 17 small metrics (uint8 height/width/advance, int8 bearings); sbix originOffset = lower-left corner relative to the origin"]
N = {"quick": 3200, "thorough": 24000}


N_CLI = {"quick": 8, "thorough": 64}


def plan(tier, seed):
    return [{"id": f"{seed}-{i}", "i": i} for i in range(N[tier])] + [{"id": f"{seed}-cli{i}", "i": i, "kind": "cli"} for i in range(N_CLI[tier])]


def run_cli_case(case):
    """The real bitmap pipeline (resvg -> pngquant wrapper -> zopflipng -> write_font under ninja): the image stored for
    each source's glyph is byte-identical to the last PNG the build made for that source - whatever the artwork (flat
    full-bleed swatches that quantise to a one-entry palette, gradients pngquant declines, ordinary shapes)."""
    import shutil

    from fontTools.ttLib import TTFont

    from vf.checks import render_common as rc
    from vf.drive import cli

    r = common.rng(ID, "cli", case["seed"], case["i"])
    fmt = ["cbdt", "sbix"][case["i"] % 2]
    res = {"counters": {}, "maxes": {}, "violations": [], "tags": [fmt, "cli-lane"]}
    c = res["counters"]
    col = lambda: "#%02x%02x%02x" % (r.randint(0, 255), r.randint(0, 255), r.randint(0, 255))
    arts = {
        "swatch": lambda: f'<rect x="0" y="0" width="100" height="100" fill="{col()}"/>',
        "stripes": lambda: f'<rect x="0" y="0" width="100" height="50" fill="{col()}"/><rect x="0" y="50" width="100" height="50" fill="{col()}"/>',
        "shape": lambda: f'<circle cx="50" cy="50" r="{r.randint(20, 45)}" fill="{col()}"/><rect x="10" y="10" width="30" height="20" fill="{col()}" opacity="0.6"/>',
        "rainbow": lambda: '<defs><linearGradient id="a" x1="0" y1="0" x2="1" y2="0"><stop offset="0" stop-color="#ff0000"/><stop offset="0.33" stop-color="#ffff00"/><stop offset="0.66" stop-color="#0066ff"/><stop offset="1" stop-color="#ff00aa"/></linearGradient></defs><rect x="2" y="2" width="96" height="96" fill="url(#a)"/>',
        "black-swatch": lambda: '<rect x="0" y="0" width="100" height="100" fill="#000000"/>',
    }
    kinds = ["swatch"] + r.sample(sorted(arts), r.randint(1, 3))
    r.shuffle(kinds)
    files = []
    for k, kind in enumerate(kinds):
        files.append({"name": "emoji_u%x.svg" % (0x1F7E0 + k), "svg": f'<svg xmlns="http://www.w3.org/2000/svg" viewBox="0 0 100 100">{arts[kind]()}</svg>', "kind": kind})
    root = common.mkscratch("c14cli-")
    try:
        src = root / "src"
        cli.write_sources(src, files)
        b = root / "build"
        res_px = r.choice([32, 64, 128])
        flags = ["--color_format", fmt, "--output_file", "Font.ttf", "--build_dir", str(b), "--bitmap_resolution", str(res_px)]
        use_pq, use_zf = r.random() < 0.85, r.random() < 0.8
        flags += ["--use_pngquant" if use_pq else "--nouse_pngquant", "--use_zopflipng" if use_zf else "--nouse_zopflipng"]
        rcode, out = cli.nanoemoji(flags + sorted(f["name"] for f in files), src, cli.env_for(events=root / "ev.jsonl"), timeout=400)
        c["cli_builds"] = 1
        if rcode != 0:
            res["violations"].append({"what": f"bitmap build of ordinary artwork failed (exit {rcode})", "kinds": kinds, "output": out[-1200:]})
            return res
        font = TTFont(str(b / "Font.ttf"), lazy=False)
        last_dir = "zopflipng" if use_zf else ("pngquant" if use_pq else "bitmap")
        for f in files:
            stem = f["name"][:-4]
            made = (b / last_dir / (stem + ".png")).read_bytes()
            name = rc.reach(font, (int(stem.split("_u")[1], 16),))
            ctx = {"source": f["name"], "artwork": f["kind"], "format": fmt, "pngquant": use_pq, "zopflipng": use_zf}
            if len(name) != 1:
                res["violations"].append(dict(ctx, what="codepoint does not shape to one glyph"))
                continue
            if fmt == "cbdt":
                datas = [bytes(sd[name[0]].imageData) for sd in font["CBDT"].strikeData if name[0] in sd]
            else:
                datas = [bytes(st.glyphs[name[0]].imageData) for st in font["sbix"].strikes.values() if name[0] in st.glyphs and st.glyphs[name[0]].imageData]
            c["cli_bitmaps_checked"] = c.get("cli_bitmaps_checked", 0) + 1
            c["cli_artwork." + f["kind"]] = c.get("cli_artwork." + f["kind"], 0) + 1
            if len(datas) != 1:
                res["violations"].append(dict(ctx, what=f"glyph carries {len(datas)} images although the build made {last_dir}/{stem}.png ({len(made)} bytes)"))
            elif datas[0] != made:
                res["violations"].append(dict(ctx, what=f"stored image differs from {last_dir}/{stem}.png"))
        res["nontrivial"] = True
        res["key"] = common.sha([kinds, flags[:8], case["i"]])
    finally:
        shutil.rmtree(root, ignore_errors=True)
    return res


def gen_case(case):
    r = common.rng(ID, case["seed"], case["i"])
    fmt = r.choice(["cbdt", "cbdt", "sbix"])
    upem = r.choice([1000, 1024, 2048, 2048, 1000, 100, 16384, 1234])
    asc = int(upem * r.choice([0.8, 0.9, 0.95, 0.88, 0.927, 1.0]))
    desc = asc - int(upem * r.choice([1.0, 1.0, 1.17, 1.2, 0.9]))
    desc = min(desc, 0)
    em = asc - desc
    k = r.random()
    res = r.choice([16, 32, 64, 100, 127, 128, 128, 136, 72, 96]) if k < 0.85 else (r.choice([150, 200, 255]) if k < 0.93 else r.choice([256, 300, 512]))
    mode = r.choice(["square", "square", "square-wide-advance", "proportional", "proportional", "nonsquare-fixed", "mixed-fixed"])
    sizes = []
    n = r.randint(1, 6)
    if mode.startswith("square"):
        sizes = [(res, res)] * n
        width = {"square": r.choice([em, upem, 0, int(em * 0.8)]), "square-wide-advance": int(em * r.choice([1.25, 1.5, 2.0]))}[mode]
    elif mode == "proportional":
        sizes = [(max(1, round(res * r.choice([0.5, 0.75, 1.0, 1.3, 1.5, 2.0]))), res) for _ in range(n)]
        width = 0
    elif mode == "mixed-fixed":
        # squares and non-squares of one height under a fixed width, in any order (the squares must still be centred)
        n = max(n, 2)
        sizes = [(res, res) if r.random() < 0.6 else (max(1, round(res * r.choice([0.5, 0.75, 1.5]))), res) for _ in range(n)]
        sizes[r.randrange(n)] = (res, res)
        if r.random() < 0.6:
            sizes[0] = (max(1, round(res * r.choice([0.5, 0.75, 1.5]))), res)
        if all(sz[0] == sz[1] for sz in sizes):
            sizes[0] = (max(1, round(res * 0.5)), res)
            sizes[-1] = (res, res)
        width = int(em * r.choice([1.0, 1.0625, 1.25, 2.0]))
    else:
        sizes = [(max(1, round(res * r.choice([0.5, 0.75, 1.5]))), res) for _ in range(n)]
        width = int(em * r.choice([1.0, 2.0]))
    cfg = {"color_format": fmt, "upem": upem, "ascender": asc, "descender": desc, "width": width, "bitmap_resolution": res, "keep_glyph_names": r.random() < 0.5}
    notdef = r.random() < 0.2
    return cfg, sizes, mode, notdef


def run_case(case):
    if case.get("kind") == "cli":
        return run_cli_case(case)
    from vf.checks import c04
    from vf.checks import render_common as rc
    from vf.drive import inproc
    from vf.oracle import structure

    cfg, sizes, mode, notdef = gen_case(case)
    fmt = cfg["color_format"]
    res = {"counters": {}, "maxes": {}, "violations": [], "tags": [fmt, mode]}
    c = res["counters"]
    upem, asc, desc, res_px = cfg["upem"], cfg["ascender"], cfg["descender"], cfg["bitmap_resolution"]
    em = asc - desc
    pngs = [c04.make_png(sz, c04.colour_of(i), i) for i, sz in enumerate(sizes)]
    # one case in three has single-codepoint sources only: no blank glyphs, so a coloured .notdef (gid 0) is separated
    # from the first colour glyph (gid 2) by exactly one glyph (.space)
    all_single = case["i"] % 3 == 0
    sources = [{"svg": None, "codepoints": [0xE000 + i] if (i % 3 or all_single) else [0x1F600 + i, 0x200D, 0x1F3FB], "name": None} for i in range(len(sizes))]
    if notdef:
        pos = case["i"] % (len(sources) + 1)
        sources.insert(pos, {"svg": None, "codepoints": [], "glyph_name": ".notdef", "name": "notdef.svg"})
        pngs.insert(pos, c04.make_png((res_px, res_px), (9, 9, 9), 777))
        sizes = sizes[:pos] + [(res_px, res_px)] + sizes[pos:]
    # what the format can hold
    ppem_ideal = upem * res_px / em
    must_raise = None
    if fmt == "cbdt" and max(max(s) for s in sizes) > 255:
        must_raise = "bitmap larger than 255 px in CBDT"
    try:
        built = inproc.build(sources, cfg, pngs=pngs)
    except Exception as e:
        if isinstance(e, AssertionError) and "consecutive" in str(e):
            res["violations"].append({"what": f"build raised AssertionError: {e}", "config": cfg, "sizes": sizes, "coloured_notdef": notdef})
            return res
        c["build_refused"] = 1
        res["tags"].append("refused")
        res["tags"].append("refused:" + type(e).__name__ + ":" + str(e)[:50].split(":")[0])
        res["nontrivial"] = True
        res["key"] = common.sha([sizes, cfg])
        return res
    if must_raise:
        res["violations"].append({"what": "the format cannot represent this input but the build succeeded: " + must_raise, "config": cfg, "sizes": sizes})
        return res
    font = built.font
    probs, facts = structure.validate(built.data, keep_glyph_names=built.cfg.keep_glyph_names)
    for p in probs:
        res["violations"].append({"what": "structure: " + p, "config": cfg})
    ppem_want = {round(ppem_ideal), int(ppem_ideal + 0.5)}
    for i, (src, inp) in enumerate(zip(sources, built.inputs)):
        if not src["codepoints"]:
            name = ".notdef"
        else:
            reached = rc.reach(font, src["codepoints"])
            if len(reached) != 1:
                res["violations"].append({"what": "sequence does not shape to one glyph", "reached": reached, "config": cfg})
                continue
            name = reached[0]
        w, h = sizes[i]
        adv = font["hmtx"][name][0]
        c["glyphs"] = c.get("glyphs", 0) + 1
        ctx = {"glyph": name, "size": [w, h], "config": cfg, "mode": mode, "hmtx_advance": adv}
        if fmt == "cbdt":
            hits = []
            for strike, data in zip(font["CBLC"].strikes, font["CBDT"].strikeData):
                if name in data:
                    hits.append((strike, data[name]))
            if len(hits) != 1:
                res["violations"].append(dict(ctx, what=f"glyph has {len(hits)} CBDT bitmaps"))
                continue
            strike, bm = hits[0]
            ppem = strike.bitmapSizeTable.ppemX
            if strike.bitmapSizeTable.ppemY != ppem:
                res["violations"].append(dict(ctx, what="ppemX != ppemY"))
            data = bytes(bm.imageData)
            m = bm.metrics
            left, top, bw, bh, padv = m.BearingX, m.BearingY, m.width, m.height, m.Advance
            right, bottom = left + bw, top - bh
        else:
            strikes = [st for st in font["sbix"].strikes.values() if name in st.glyphs and st.glyphs[name].imageData]
            if len(strikes) != 1:
                res["violations"].append(dict(ctx, what=f"glyph has {len(strikes)} sbix bitmaps"))
                continue
            st = strikes[0]
            g = st.glyphs[name]
            ppem = st.ppem
            data = bytes(g.imageData)
            left, bottom = g.originOffsetX, g.originOffsetY
            bw, bh = w, h
            right, top = left + bw, bottom + bh
            padv = None
        if data != pngs[i]:
            res["violations"].append(dict(ctx, what="stored image bytes differ from the PNG of this source"))
        if fmt == "cbdt" and (bw, bh) != (w, h):
            res["violations"].append(dict(ctx, what=f"stored bitmap size {bw}x{bh} differs from the PNG {w}x{h}"))
        if ppem not in ppem_want:
            res["violations"].append(dict(ctx, what=f"strike ppem {ppem}, expected round(upem*h/em) = {sorted(ppem_want)}"))
            continue
        s = ppem / upem
        ideal_top, ideal_bottom, ideal_right = asc * s, desc * s, adv * s
        # 2 px where the ideal offset lies outside the 8-bit range of the format and had to be nudged
        tol_v = 2.0 if (fmt == "cbdt" and not (-128 <= round(ideal_top) <= 127)) else 1.0
        # the strike's integer ppem is itself a rounding of upem*h/em, so the em box at that ppem is not exactly bh pixels
        # tall: that mismatch (< 0.5*em/upem px) cannot be placed away and may sit on either edge
        mismatch = abs(bh - (ideal_top - ideal_bottom))
        slack = lambda v: 0.5 * abs(v) / ppem  # the same effect for horizontal quantities of v px
        ev = max(abs(top - ideal_top), abs(bottom - ideal_bottom)) - mismatch
        res["maxes"]["max_vertical_error_px"] = max(res["maxes"].get("max_vertical_error_px", 0), ev)
        if ev > tol_v + 1e-6:
            res["violations"].append(dict(ctx, what=f"bitmap box is vertically off the em box: top {top} vs {ideal_top:.2f}, bottom {bottom} vs {ideal_bottom:.2f} (tolerance {tol_v} px)", ppem=ppem))
        proportional = mode == "proportional" or (mode.startswith("square") )
        if mode == "proportional":
            eh = max(abs(left - 0), abs(right - ideal_right) - slack(ideal_right))
            res["maxes"]["max_horizontal_error_px"] = max(res["maxes"].get("max_horizontal_error_px", 0), eh)
            if eh > 1.0 + 1e-6:
                res["violations"].append(dict(ctx, what=f"proportional bitmap box is horizontally off the em box: left {left} vs 0, right {right} vs {ideal_right:.2f}", ppem=ppem, mechanism=None))
        elif mode.startswith("square") or (mode == "mixed-fixed" and w == h):
            centre_err = abs((left + right) / 2 - ideal_right / 2) - slack(ideal_right / 2)
            lim = 1.0 if (fmt != "cbdt" or -128 <= round(ideal_right / 2 - bw / 2) <= 127) else 2.0
            res["maxes"]["max_centring_error_px"] = max(res["maxes"].get("max_centring_error_px", 0), centre_err)
            if centre_err > lim + 1e-6:
                res["violations"].append(dict(ctx, what=f"square bitmap is not centred in its advance: box {left}..{right}, advance {ideal_right:.2f} px", ppem=ppem))
        if padv is not None:
            ea = abs(padv - ideal_right) - slack(ideal_right)
            res["maxes"]["max_advance_error_px"] = max(res["maxes"].get("max_advance_error_px", 0), ea)
            if ea > 1.0 + 1e-6:
                res["violations"].append(dict(ctx, what=f"pixel advance {padv} differs from the scaled font advance {ideal_right:.2f}", ppem=ppem))
    if "CBLC" in font and len(font["CBLC"].strikes) > 1:
        c["cblc_multi_run_fonts"] = 1
    awkward = abs(ppem_ideal - round(ppem_ideal)) > 0.05 or (asc * round(ppem_ideal) / upem) % 1 > 0.05
    res["nontrivial"] = mode != "square" or awkward
    res["key"] = common.sha([sizes, cfg])
    if case["i"] < 2:
        res["sample"] = {"config": cfg, "png_sizes": sizes, "mode": mode}
    return res


def finish(agg):
    t = agg["tags"]
    inc = []
    for k in ("cbdt", "sbix", "proportional", "nonsquare-fixed", "square-wide-advance", "refused"):
        if t.get(k, 0) == 0:
            inc.append(f"class never exercised: {k}")
    if agg["counters"].get("cli_bitmaps_checked", 0) == 0:
        inc.append("CLI bitmap lane never compared an image")
    if agg["counters"].get("cblc_multi_run_fonts", 0) == 0:
        inc.append("no CBDT font with a glyph id gap")
    return {"inconclusive": inc}
