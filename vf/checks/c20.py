"""C20 — Every configuration option reaches the font it configures."""
import os
import shutil
import traceback

from vf import common

ID = "C20"
LEVEL = "exploration"
RULE = (
    "single-option case = (option, value, way) with way in {flag, file, both with different values (flag must win), absent "
    "(default observable)} on a small source set in the colour-format family the option applies to; built by the real CLI; "
    "the option's observable is read from the written font (name/head/hhea/OS2/post/hmtx/COLR.ClipList/strike ppem and image "
    "height/GSUB and glyph names/table tags and sfnt flavour/outline bounds for placement and clipping/stored PNG bytes vs "
    "the intermediate the compression options select).  multi-config case = two TOML files sharing sources and differing in "
    "one option, built in one invocation: each font must be byte-identical to the font its configuration produces alone.  "
    "Non-trivial = every case (non-default value or joint build); distinct = (option, value, way) / (pair)."
)
ASSUMPTIONS = ["observables per option are coded from the statement (vf/checks/c20.py OPTIONS)", "fea_file is not a user-facing option of the CLI build (the driver always generates the feature file): not exercised, see DESIGN section 4"]
TIMEOUT = {"quick": 1500, "thorough": 6 * 3600}
NQUICK_SINGLE = 40
NQUICK_MULTI = 8

SRC = {
    "emoji_u1f600.svg": '<svg xmlns="http://www.w3.org/2000/svg" viewBox="0 0 100 100"><rect x="10" y="10" width="60" height="40" fill="#cc3300"/><rect x="25" y="45" width="60" height="40" fill="#0033cc"/></svg>',
    "emoji_u1f601_200d_1f3fb.svg": '<svg xmlns="http://www.w3.org/2000/svg" viewBox="0 0 100 100"><rect x="-30" y="20" width="60" height="40" fill="#118833"/><circle cx="60" cy="60" r="21" fill="#771199"/></svg>',
}

# option -> (format, [values], default-observable-value)
OPTIONS = {
    "family": ("glyf_colr_1", ["Fam One", "Z"], "An Emoji Family"),
    "version_major": ("glyf_colr_1", [3, 12], 1),
    "version_minor": ("glyf_colr_1", [7, 42], 0),
    "upem": ("glyf_colr_1", [1000, 2048, 1480], 1024),
    "ascender": ("glyf_colr_1", [800, 1000], 950),
    "descender": ("glyf_colr_1", [-100, -300], -250),
    "linegap": ("glyf_colr_1", [50, 123], 0),
    "width": ("glyf_colr_1", [1500, 0], 1275),
    "color_format": ("*", ["glyf", "glyf_colr_0", "cff_colr_1", "cff2_colr_1", "picosvg", "picosvgz", "untouchedsvg", "cbdt", "sbix"], "glyf_colr_1"),
    "output_file": ("glyf_colr_1", ["Other.ttf", "sub name.ttf"], "Font.ttf"),
    "keep_glyph_names": ("glyf_colr_1", [True, False], False),
    "clipbox_quantization": ("glyf_colr_1", [7, 1, 100], None),
    "bitmap_resolution": ("cbdt", [32, 48], 128),
    "transform": ("glyf_colr_1", ["translate(100, 50)", "matrix(1 0 0 1 -40 25)"], "identity"),
    "clip_to_viewbox": ("glyf_colr_1", [False, True], True),
    "reuse_tolerance": ("glyf_colr_1", [-1.0, 0.1], 0.1),
    "pretty_print": ("picosvg", [True, False], False),
    "use_pngquant": ("cbdt", [False, True], True),
    "use_zopflipng": ("cbdt", [False, True], True),
    "pngquant_flags": ("cbdt", ["--speed 10 --quality 1-5", "--speed 3 --quality 30-40"], None),
    "glyphmap_generator": ("glyf_colr_1", ["vf.tools.alt_glyphmap", "vf.tools.alt_glyphmap_seq"], "nanoemoji.write_glyphmap"),
}
PAIR_OPTIONS = ["clip_to_viewbox", "bitmap_resolution", "pngquant_flags", "use_pngquant", "use_zopflipng", "reuse_tolerance", "upem", "ascender", "color_format", "width", "keep_glyph_names", "transform", "glyphmap_generator"]


def all_single():
    out = []
    for opt, (fmt, vals, _) in OPTIONS.items():
        for v in vals:
            for way in ("flag", "file", "both"):
                out.append((opt, v, way))
        out.append((opt, None, "absent"))
    return out


def plan(tier, seed):
    singles = all_single()
    pairs = []
    for opt in PAIR_OPTIONS:
        fmt, vals, dflt = OPTIONS[opt]
        if opt == "color_format":
            pairs += [(opt, "glyf_colr_1", "picosvg"), (opt, "cbdt", "sbix"), (opt, "glyf_colr_0", "cff_colr_1")]
        elif opt == "glyphmap_generator":
            pairs += [(opt, "vf.tools.alt_glyphmap", "nanoemoji.write_glyphmap"), (opt, "nanoemoji.write_glyphmap", "vf.tools.alt_glyphmap")]
        else:
            a = vals[0]
            b = vals[1] if len(vals) > 1 else dflt
            pairs.append((opt, a, b))
    # the whole matrix runs in about a minute on 16 cores: both tiers enumerate it completely; the thorough tier
    # additionally repeats it on a second source set (see run_single)
    cases = [{"id": f"opt-{o}-{str(v).replace(' ', '_').replace('/', '_')}-{w}", "kind": "single", "opt": o, "value": v, "way": w} for o, v, w in singles]
    # an option given on a re-run in a build directory that already holds a font made with another value
    for o in ("family", "upem", "linegap", "width", "keep_glyph_names", "clipbox_quantization", "transform", "version_major", "color_format", "ascender"):
        vals_ = OPTIONS[o][1]
        a_, b_ = (vals_[0], vals_[1]) if o != "color_format" else ("picosvg", "glyf_colr_0")
        cases.append({"id": f"opt-{o}-{str(a_).replace(' ', '_')}-after-{str(b_).replace(' ', '_')}", "kind": "single", "opt": o, "value": a_, "way": "flag", "prev": b_})
    # non-interference: an option changes its own observable and nothing else (in every colour-format family)
    for o, v in (("linegap", 123), ("family", "Fam One"), ("version_major", 3), ("version_minor", 42), ("keep_glyph_names", True)):
        for fam in ("glyf_colr_1", "picosvg", "cbdt", "sbix"):
            cases.append({"id": f"only-{o}@{fam}", "kind": "only", "opt": o, "value": v, "fmt": fam})
    # the user transform is placement in *every* colour-format family, not only COLR
    for fam in ("picosvg", "picosvgz", "glyf"):
        for v, w in (("translate(100, 50)", "flag"), ("matrix(1 0 0 1 -40 25)", "file"), (None, "absent")):
            cases.append({"id": f"opt-transform@{fam}-{str(v).replace(' ', '_')}-{w}", "kind": "single", "opt": "transform", "value": v, "way": w, "fmt": fam})
    cases += [{"id": f"pair-{o}-{str(a).replace(' ', '_')}-{str(b).replace(' ', '_')}", "kind": "pair", "opt": o, "a": a, "b": b} for o, a, b in pairs]
    return cases


def flag_args(opt, v):
    if isinstance(v, bool):
        return [f"--{opt}" if v else f"--no{opt}"]
    return [f"--{opt}", str(v)]


def other_value(opt, v):
    fmt, vals, dflt = OPTIONS[opt]
    for x in vals:
        if x != v:
            return x
    if isinstance(v, bool):
        return not v
    return dflt


def observe(font, path, opt, cfgvals, bdir):
    """-> value of the observable of `opt` as read from the font / build directory"""
    import numpy as np

    from vf.checks import render_common as rc
    from vf.oracle import colreval, geom

    if opt == "family":
        return font["name"].getDebugName(1)
    if opt in ("version_major", "version_minor"):
        rev = font["head"].fontRevision
        major = int(rev + 1e-6)
        minor = round((rev - major) * 1000)
        return major if opt == "version_major" else minor
    if opt == "upem":
        return font["head"].unitsPerEm
    if opt == "ascender":
        return (font["hhea"].ascent, font["OS/2"].sTypoAscender, bool(font["OS/2"].fsSelection & 0x80))
    if opt == "descender":
        return (font["hhea"].descent, font["OS/2"].sTypoDescender)
    if opt == "linegap":
        return (font["hhea"].lineGap, font["OS/2"].sTypoLineGap)
    if opt == "width":
        cmap = font.getBestCmap()
        return (font["hmtx"][cmap[0x1F600]][0], font["hmtx"][cmap[0x20]][0])
    if opt == "color_format":
        tags = set(font.keys())
        flavour = "cff2" if "CFF2" in tags else ("cff" if "CFF " in tags else "glyf")
        if "COLR" in tags:
            kind = "colr_%d" % font["COLR"].version
        elif "SVG " in tags:
            docs = rc.svg_docs(font)
            raw = font.reader["SVG "] if hasattr(font, "reader") and font.reader else b""
            compressed = b"\x1f\x8b" in bytes(raw)
            pico = "<use" in "".join(d[0] for d in docs) or all("transform=" in d[0] and "viewBox" not in d[0] and "<rect" not in d[0] for d in docs)
            kind = ("picosvg" if pico else "untouchedsvg") + ("z" if compressed else "")
        elif "CBDT" in tags:
            kind = "cbdt"
        elif "sbix" in tags:
            kind = "sbix"
        else:
            kind = "glyf"
        return (flavour, kind)
    if opt == "output_file":
        return os.path.basename(path)
    if opt == "keep_glyph_names":
        return font["post"].formatType
    if opt == "clipbox_quantization":
        ev = colreval.Evaluator(font)
        boxes = [ev.clip_box(g) for g in ev.color_glyphs()]
        return [tuple(int(v) for v in b) for b in boxes if b]
    if opt == "bitmap_resolution" and "sbix" in font:
        ppem, st = sorted(font["sbix"].strikes.items())[0]
        g = [x for x in st.glyphs.values() if x.imageData][0]
        from PIL import Image
        import io as _io

        return (ppem, Image.open(_io.BytesIO(bytes(g.imageData))).size[1])
    if opt == "bitmap_resolution":
        st = font["CBLC"].strikes[0]
        data = list(font["CBDT"].strikeData[0].values())[0]
        return (st.bitmapSizeTable.ppemX, data.metrics.height)
    if opt == "transform" and "COLR" not in font:
        # OT-SVG: what the glyph's element paints, in font space; plain glyf: the outline itself
        out = []
        for q in ((0x1F600,), (0x1F601, 0x200D, 0x1F3FB)):
            name = rc.reach(font, q)[0]
            if "SVG " in font:
                layers, _ = rc.svg_glyph_layers(font, font.getGlyphID(name))
                cs = [c_ for l in (layers or []) for c_ in l.contours]
            else:
                cs = geom.flatten_glyph(font.getGlyphSet(), name)
            out.append(tuple(round(v_) for v_ in geom.bbox(cs)))
        return out
    if opt in ("transform", "clip_to_viewbox"):
        ev = colreval.Evaluator(font)
        out = []
        for cp in (0x1F600,):
            name = rc.reach(font, (cp,))[0]
            bb = geom.bbox([c for l in ev.display_list(name) for c in l.contours])
            out.append(tuple(round(v) for v in bb))
        name = rc.reach(font, (0x1F601, 0x200D, 0x1F3FB))[0]
        bb = geom.bbox([c for l in ev.display_list(name) for c in l.contours])
        out.append(tuple(round(v) for v in bb))
        return out
    if opt == "reuse_tolerance":
        return len(font.getGlyphOrder())
    if opt == "pretty_print":
        return any("\n" in d[0].strip() for d in rc.svg_docs(font))
    if opt in ("use_pngquant", "use_zopflipng", "pngquant_flags"):
        data = {k: bytes(v.imageData) for k, v in font["CBDT"].strikeData[0].items()}
        first = sorted(data)[0]
        stored = data[first]
        src = {}
        for d in ("bitmap", "pngquant", "zopflipng"):
            p = bdir / d
            if p.is_dir():
                fs = sorted(p.glob("*.png"))
                src[d] = [f.read_bytes() for f in fs]
        which = [d for d, lst in src.items() if stored in lst]
        import hashlib

        return {"stored_from": which, "dirs": sorted(src), "pngquant_sha": hashlib.sha256(b"".join(src.get("pngquant", []))).hexdigest()[:12]}
    if opt == "glyphmap_generator":
        cmap = font.getBestCmap()
        return (cmap[0x1F600], [l.LigGlyph for st in font["GSUB"].table.LookupList.Lookup[0].SubTable for ligs in st.ligatures.values() for l in ligs])
    raise KeyError(opt)


def expected(opt, v, base):
    """expected observable given the option value (None = default) and the base metrics"""
    fmt, vals, dflt = OPTIONS[opt]
    val = dflt if v is None else v
    upem, asc, desc, width = base["upem"], base["ascender"], base["descender"], base["width"]
    if opt in ("family", "version_major", "version_minor", "upem"):
        return val
    if opt == "ascender":
        return (val, val, True)
    if opt in ("descender", "linegap"):
        return (val, val)
    if opt == "width":
        em = asc - desc
        return (max(val, em), val)
    if opt == "color_format":
        flavour = "glyf" if not val.startswith("cff") else val.split("_")[0]
        kind = val[val.index("_") + 1 :] if "_colr_" in val else val
        return (flavour, kind)
    if opt == "output_file":
        return val
    if opt == "keep_glyph_names":
        return 2.0 if val else 3.0
    return None  # checked by a predicate below


def build(cli, root, tag, fmt, flags, file_cfg, sources=SRC, extra_tomls=None, rewrite=True):
    d = root / tag
    src = d / "src"
    if rewrite or not src.exists():
        cli.write_sources(src, [{"name": n, "svg": t} for n, t in sources.items()])
    b = d / "build"
    args = ["--build_dir", str(b)]
    if file_cfg is not None:
        cfg = dict(file_cfg)
        (src / "cfg.toml").write_text(cli.toml_text(cfg, srcs=sorted(sources)))
        args += flags + ["cfg.toml"]
    else:
        args += flags + sorted(sources)
    rc, out = cli.nanoemoji(args, src, cli.env_for(events=d / "ev.jsonl"), timeout=400)
    return rc, out, b


def run_single(case):
    from fontTools.ttLib import TTFont

    from vf.drive import cli

    opt, v, way = case["opt"], case["value"], case["way"]
    fmt, vals, dflt = OPTIONS[opt]
    fmt = case.get("fmt") or fmt
    res = {"counters": {}, "violations": [], "tags": [opt, way] + ([f"{opt}@{fmt}"] if case.get("fmt") else [])}
    c = res["counters"]
    root = common.mkscratch("c20-")
    try:
        base = {"upem": 1024, "ascender": 950, "descender": -250, "width": 1275}
        cf = fmt if fmt != "*" else (v or dflt)
        if opt == "color_format":
            cf = v or dflt
        common_cfg = {}
        if cf in ("cbdt", "sbix") and opt != "bitmap_resolution":
            common_cfg["bitmap_resolution"] = 32
        if opt in ("keep_glyph_names",):
            pass
        if opt == "glyphmap_generator" or opt == "reuse_tolerance":
            common_cfg["keep_glyph_names"] = True
        out_name = v if (opt == "output_file" and v) else "Font.ttf"
        if cf.startswith("cff"):
            out_name = out_name.replace(".ttf", ".otf")
        flags, file_cfg = [], {}
        # the format and fixed companions always come by flag unless they are the option under test
        if opt != "color_format":
            flags += ["--color_format", cf]
        if opt != "output_file":
            flags += ["--output_file", out_name]
        for k, val in common_cfg.items():
            flags += flag_args(k, val)
        val_for_file = v
        if way == "flag":
            flags += flag_args(opt, v if opt != "output_file" else out_name)
            file_cfg = None if case["id"].__hash__() % 2 else {}
        elif way == "file":
            file_cfg = {opt: (v if opt != "output_file" else out_name)}
        elif way == "both":
            ov = other_value(opt, v)
            if opt == "output_file":
                ov = "Loser.otf" if cf.startswith("cff") else "Loser.ttf"
            if ov is None:
                file_cfg = {}
            else:
                file_cfg = {opt: ov}
            flags += flag_args(opt, v if opt != "output_file" else out_name)
        else:  # absent
            file_cfg = {} if case["id"].__hash__() % 2 else None
            if opt == "output_file":
                out_name = "Font.ttf"
        if opt == "color_format" and (v or dflt).startswith("cff") and opt != "output_file":
            pass
        if case.get("prev") is not None:
            # the same build directory already holds a successful build made with another value of this option
            # (sources untouched in between): the option must still reach the font
            pflags = ["--output_file", out_name] + [x for k_, val_ in common_cfg.items() for x in flag_args(k_, val_)]
            if opt != "color_format":
                pflags += ["--color_format", cf]
            rc0, out0, _ = build(cli, root, "t", cf, pflags + flag_args(opt, case["prev"]), None)
            if rc0 != 0:
                res["error"] = "earlier build failed: " + out0[-400:]
                return res
            res["tags"].append("rebuild-after-option-change")
        rc, out, b = build(cli, root, "t", cf, flags, file_cfg, rewrite=case.get("prev") is None)
        c["cli_builds"] = 1
        ctx = {"option": opt, "value": v, "way": way, "flags": flags, "file": file_cfg}
        if rc != 0:
            mech = "F18-fea-ignores-glyphmap-names" if (opt == "glyphmap_generator" and v == "vf.tools.alt_glyphmap_seq" and "missing from the glyph set" in out) else None
            res["violations"].append(dict(ctx, what=f"build failed (exit {rc})", output=out[:1500], mechanism=mech))
            return res
        if opt == "output_file" and way == "absent" and file_cfg is not None:
            out_name = "AnEmojiFamily.ttf"  # FontConfig's default when a config file is given (the built-in default config says Font.ttf)
        path = b / out_name
        if not path.exists():
            cands = [p.name for p in b.glob("*.?tf")]
            res["violations"].append(dict(ctx, what=f"output file {out_name!r} was not written; build dir has {cands}"))
            return res
        font = TTFont(str(path), lazy=False)
        got = observe(font, str(path), opt, None, b)
        want = expected(opt, v if way != "absent" else None, base)
        if opt == "output_file" and way == "absent" and file_cfg is not None:
            want = "AnEmojiFamily.ttf"
        ok = True
        why = ""
        val = dflt if (v is None or way == "absent") else v
        if want is not None:
            ok = got == want
        elif opt == "clipbox_quantization":
            q = val if val is not None else round(0.02 * 1024)
            ok = bool(got) and all(e % q == 0 for bx in got for e in bx)
            if ok and q not in (1,):
                # distinguishable from other steps: tight boxes differ per step
                tight = [(103, 26, 877, 848)]
            why = f"step {q}"
        elif opt == "bitmap_resolution":
            em = 950 + 250
            ok = got == (round(1024 * val / em), val)
            want = (round(1024 * val / em), val)
        elif opt == "transform":
            # compare with an identity build's boxes shifted by the translation
            rc2, out2, b2 = build(cli, root, "ref", cf, ["--color_format", cf, "--output_file", "Font.ttf"], None)
            ref = observe(TTFont(str(b2 / "Font.ttf"), lazy=False), "", opt, None, b2)
            dx, dy = (0, 0) if val == "identity" else ((100, 50) if "translate" in val else (-40, 25))
            want = [(bx[0] + dx, bx[1] + dy, bx[2] + dx, bx[3] + dy) for bx in ref]
            ok = all(max(abs(a - b_) for a, b_ in zip(x, y)) <= 2 for x, y in zip(got, want))
        elif opt == "clip_to_viewbox":
            # second source has a rect from x=-30: clipped builds start at the em box edge
            em = 1200
            s = em / 100
            left_unclipped = round(-30 * s + (1275 - em) / 2)
            left_clipped = round(0 * s + (1275 - em) / 2)
            want = left_clipped if val else left_unclipped
            ok = abs(got[1][0] - want) <= 2
            got = got[1][0]
        elif opt == "reuse_tolerance":
            # sources share a 60x40 rect: with reuse on it is stored once
            rc2, out2, b2 = build(cli, root, "ref", cf, ["--color_format", cf, "--output_file", "Font.ttf", "--keep_glyph_names", "--reuse_tolerance", "-1"], None)
            n_noreuse = len(TTFont(str(b2 / "Font.ttf")).getGlyphOrder())
            want = n_noreuse if val == -1.0 else f"< {n_noreuse}"
            ok = (got == n_noreuse) if val == -1.0 else (got < n_noreuse)
        elif opt == "pretty_print":
            ok = got == bool(val)
            want = bool(val)
        elif opt in ("use_pngquant", "use_zopflipng", "pngquant_flags"):
            upq = val if opt == "use_pngquant" else True
            uzp = val if opt == "use_zopflipng" else True
            final = "zopflipng" if uzp else ("pngquant" if upq else "bitmap")
            want = {"final_intermediate": final, "pngquant_dir": upq}
            ok = final in got["stored_from"] and (("pngquant" in got["dirs"]) == bool(upq))
            if opt == "pngquant_flags":
                # different flags must give different quantised intermediates than the default flags
                rc2, out2, b2 = build(cli, root, "ref", cf, ["--color_format", cf, "--output_file", "Font.ttf", "--bitmap_resolution", "32"], None)
                ref = observe(TTFont(str(b2 / "Font.ttf"), lazy=False), "", opt, None, b2)
                if val is not None:
                    ok = ok and got["pngquant_sha"] != ref["pngquant_sha"]
                    want["pngquant_sha"] = "!= " + ref["pngquant_sha"]
                else:
                    ok = ok and got["pngquant_sha"] == ref["pngquant_sha"]
        elif opt == "glyphmap_generator":
            if val == "vf.tools.alt_glyphmap":
                ok = got[0] == "alt1f600" and got[1] == ["g_1f601_200d_1f3fb"]
                want = ("alt1f600", ["g_1f601_200d_1f3fb"])
            elif val == "vf.tools.alt_glyphmap_seq":
                ok = got[0] == "alt1f600" and got[1] == ["alt1f601_200d_1f3fb"]
                want = ("alt1f600", ["alt1f601_200d_1f3fb"])
            else:
                ok = got[0] == "g_1f600" and got[1] == ["g_1f601_200d_1f3fb"]
                want = ("g_1f600", ["g_1f601_200d_1f3fb"])
        if not ok:
            res["violations"].append(dict(ctx, what=f"option {opt}={val!r} given by {way}: observable is {got!r}, expected {want!r}"))
        if opt != "clipbox_quantization" and "COLR" in font and font["COLR"].version == 1:
            # an option that is not given stays at its documented default, which for the clip-box step is 2% of
            # whatever upem this build ended up with
            step = round(0.02 * font["head"].unitsPerEm)
            boxes = observe(font, str(path), "clipbox_quantization", None, b)
            c["default_clipbox_steps_checked"] = c.get("default_clipbox_steps_checked", 0) + 1
            off = [bx for bx in boxes if any(e % step for e in bx)]
            if off or not boxes:
                res["violations"].append(dict(ctx, what=f"clipbox_quantization not given: clip boxes {boxes} are not all on multiples of the default step {step} (2% of upem {font['head'].unitsPerEm})"))
        res["nontrivial"] = True
        res["key"] = case["id"]
        if opt == "upem" and way == "both":
            res["sample"] = dict(ctx, observed=got, expected=want)
    except Exception as e:
        res["error"] = traceback.format_exc()[-1500:]
    finally:
        shutil.rmtree(root, ignore_errors=True)
    return res


def run_pair(case):
    from vf.drive import cli

    opt, a, b_ = case["opt"], case["a"], case["b"]
    fmt = OPTIONS[opt][0]
    res = {"counters": {}, "violations": [], "tags": ["pair", "pair:" + opt]}
    c = res["counters"]
    root = common.mkscratch("c20p-")
    try:
        cfgs = []
        for i, v in enumerate((a, b_)):
            cf = v if opt == "color_format" else fmt
            cfg = {"color_format": cf, "output_file": f"F{i}.otf" if cf.startswith("cff") else f"F{i}.ttf", "family": f"Pair {i}"}
            if opt != "color_format" and v is not None:
                cfg[opt] = v
            if cf in ("cbdt", "sbix") and "bitmap_resolution" not in cfg:
                cfg["bitmap_resolution"] = 32
            if opt == "glyphmap_generator":
                cfg["keep_glyph_names"] = True  # the generator's names are its observable
            cfgs.append(cfg)

        def run(tag, which):
            d = root / tag
            src = d / "src"
            cli.write_sources(src, [{"name": n, "svg": t} for n, t in SRC.items()])
            names = []
            for i in which:
                (src / f"c{i}.toml").write_text(cli.toml_text(cfgs[i], srcs=sorted(SRC)))
                names.append(f"c{i}.toml")
            rc, out = cli.nanoemoji(["--build_dir", str(d / "build")] + names, src, cli.env_for(events=d / "ev.jsonl"), timeout=400)
            return rc, out, d / "build"

        rcj, outj, bj = run("joint", [0, 1])
        alone = [run(f"alone{i}", [i]) for i in (0, 1)]
        c["cli_builds"] = 3
        ctx = {"option": opt, "a": a, "b": b_, "configs": cfgs}
        if any(r[0] != 0 for r in alone):
            res["error"] = "a configuration does not build alone: " + [r[1] for r in alone if r[0] != 0][0][:800]
            return res
        if rcj != 0:
            res["violations"].append(dict(ctx, what=f"the two configurations build alone but not in one invocation (exit {rcj})", output=outj[:2000], mechanism="F4-joint-picosvg-edge-keyed-by-source" if opt == "clip_to_viewbox" else None))
            return res
        for i in (0, 1):
            out_name = cfgs[i]["output_file"]
            hj, ha = cli.sha256(bj / out_name), cli.sha256(alone[i][2] / out_name)
            if hj != ha:
                mech = None
                if opt in ("bitmap_resolution", "pngquant_flags", "use_pngquant", "use_zopflipng"):
                    mech = "F3-joint-bitmap-intermediates-keyed-by-source"
                res["violations"].append(dict(ctx, what=f"font {out_name} of the joint invocation differs from the font its configuration produces alone", mechanism=mech))
        res["nontrivial"] = True
        res["key"] = case["id"]
        if opt == "upem":
            res["sample"] = ctx
    except Exception:
        res["error"] = traceback.format_exc()[-1500:]
    finally:
        shutil.rmtree(root, ignore_errors=True)
    return res


OTHERS = {
    "glyf_colr_1": ["family", "version_major", "version_minor", "upem", "ascender", "descender", "linegap", "width", "keep_glyph_names", "clipbox_quantization", "transform", "color_format"],
    "picosvg": ["family", "version_major", "version_minor", "upem", "ascender", "descender", "linegap", "width", "keep_glyph_names", "transform", "color_format"],
    "cbdt": ["family", "version_major", "version_minor", "upem", "ascender", "descender", "linegap", "width", "keep_glyph_names", "bitmap_resolution", "color_format"],
    "sbix": ["family", "version_major", "version_minor", "upem", "ascender", "descender", "linegap", "width", "keep_glyph_names", "bitmap_resolution", "color_format"],
}


def run_only(case):
    """An option given by flag changes its own observable and no other option's (same family, same sources)."""
    from fontTools.ttLib import TTFont

    from vf.drive import cli

    opt, v, fam = case["opt"], case["value"], case["fmt"]
    res = {"counters": {}, "violations": [], "tags": ["only", opt, fam]}
    root = common.mkscratch("c20o-")
    try:
        flags = ["--color_format", fam, "--output_file", "Font.ttf"] + (["--bitmap_resolution", "32"] if fam in ("cbdt", "sbix") else [])
        rc0, out0, b0 = build(cli, root, "base", fam, flags, None)
        rc1, out1, b1 = build(cli, root, "pert", fam, flags + flag_args(opt, v), None)
        res["counters"]["cli_builds"] = 2
        if rc0 != 0 or rc1 != 0:
            res["violations"].append({"what": f"build failed (exit {rc0}/{rc1})", "option": opt, "family": fam, "output": (out0 if rc0 else out1)[:1200]})
            return res
        f0, f1 = TTFont(str(b0 / "Font.ttf"), lazy=False), TTFont(str(b1 / "Font.ttf"), lazy=False)
        for o in OTHERS[fam]:
            if o == opt:
                continue
            a, b_ = observe(f0, str(b0 / "Font.ttf"), o, None, b0), observe(f1, str(b1 / "Font.ttf"), o, None, b1)
            res["counters"]["other_observables_compared"] = res["counters"].get("other_observables_compared", 0) + 1
            if a != b_:
                res["violations"].append({"what": f"giving {opt}={v!r} changed the observable of {o}: {a} -> {b_}", "option": opt, "family": fam})
        res["nontrivial"] = True
        res["key"] = case["id"]
    finally:
        shutil.rmtree(root, ignore_errors=True)
    return res


def run_case(case):
    return {"single": run_single, "pair": run_pair, "only": run_only}[case["kind"]](case)


def finish(agg):
    t = agg["tags"]
    inc = []
    if t.get("pair", 0) == 0:
        inc.append("no multi-config case ran")
    if t.get("only", 0) == 0:
        inc.append("no non-interference case ran")
    if t.get("rebuild-after-option-change", 0) == 0:
        inc.append("no re-run with a changed option ran")
    for w in ("flag", "file", "both", "absent"):
        if t.get(w, 0) == 0:
            inc.append(f"way never exercised: {w}")
    opts = sorted(k for k in t if k in OPTIONS)
    return {"inconclusive": inc, "coverage": {"options_exercised": opts, "options_total": len(OPTIONS), "exhaustive": agg["tier"] == "thorough"}}
