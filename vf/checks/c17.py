"""C17 — Ambiguous or unusable input stops the build instead of yielding a wrong glyph."""
import os
import shutil
import traceback

from vf import common

ID = "C17"
LEVEL = "exploration"
RULE = (
    "case = a source set with one injected defect (two files resolving to one codepoint sequence, in both naming schemes or "
    "differing only in hex case; malformed / truncated XML; unknown colour string; pattern paint; missing gradient target; "
    "unknown spreadMethod; conflicting palette indices in a COLR build; masters with different source-name sets; bitmap > 255 "
    "px for CBDT) at a random position among 0-4 valid companions, in a colour format where the defect applies; built by the "
    "real CLI into a fresh directory or into one that already holds a font from the valid companions, and in-process.  "
    "Oracle: exit status != 0 and no freshly written output font (absent / byte- and mtime-identical).  On exit 0 the font "
    "goes to the reachability/identity oracle of C04.  Non-trivial = every case (each has a defect); distinct = (defect, "
    "position, companions, format)."
)
ASSUMPTIONS = ["defect classes are the ones the statement lists", "a failing picosvg step counts as the build stopping"]
N_CLI = {"quick": 60, "thorough": 600}
N_INPROC = {"quick": 240, "thorough": 3000}
TIMEOUT = {"quick": 1500, "thorough": 6 * 3600}

GOOD = [
    ("emoji_u1f680.svg", '<svg xmlns="http://www.w3.org/2000/svg" viewBox="0 0 100 100"><rect x="10" y="10" width="60" height="40" fill="#cc3300"/></svg>'),
    ("emoji_u1f681.svg", '<svg xmlns="http://www.w3.org/2000/svg" viewBox="0 0 100 100"><circle cx="50" cy="50" r="30" fill="#0033cc"/></svg>'),
    ("emoji_u1f682_200d_1f3fb.svg", '<svg xmlns="http://www.w3.org/2000/svg" viewBox="0 0 100 100"><rect x="20" y="30" width="50" height="50" fill="#118833"/></svg>'),
    ("emoji_u42.svg", '<svg xmlns="http://www.w3.org/2000/svg" viewBox="0 0 100 100"><path d="M10,90 L50,20 L90,90 Z" fill="#771199"/></svg>'),
]
BODY = '<rect x="15" y="15" width="55" height="35" fill="{fill}"/>'
DEFECTS = ["missing-listed-source", "dup-glyph-name", "dup-basename", "dup-scheme", "dup-case", "malformed-xml", "truncated-xml", "unknown-colour", "pattern-paint", "missing-gradient", "bad-spread", "palette-conflict", "masters-mismatch", "bitmap-too-big"]
VECTOR_FORMATS = ["glyf_colr_1", "glyf_colr_0", "picosvg", "glyf", "cff_colr_1"]


def make_defect(kind, r):
    """-> (list of (name, text), formats where it applies, extra flags, description)"""
    S = lambda body, defs="": f'<svg xmlns="http://www.w3.org/2000/svg" viewBox="0 0 100 100">{defs}{body}</svg>'
    if kind == "missing-listed-source":
        # a configuration file that lists a source which is not there (misspelt / deleted): text None = never written
        return [(r.choice(["emoji_u1f6ff.svg", "emoji_u1f6f[1].svg", "gone/emoji_u1f6fe.svg"]), None)], VECTOR_FORMATS + ["untouchedsvg", "cbdt"], [], "configuration lists a source file that does not exist"
    if kind == "dup-glyph-name":
        # different codepoints, one glyph name: ASCII letters are named by the letter, everything else by lower-case hex
        a, b = r.choice([("emoji_u0061.svg", "emoji_u000a.svg"), ("emoji_u0062.svg", "emoji_u000b.svg"), ("emoji_u0066.svg", "emoji_u000f.svg")])
        return [(a, S(BODY.format(fill="#010203"))), (b, S(BODY.format(fill="#a0b0c0")))], VECTOR_FORMATS + ["untouchedsvg", "cbdt"], [], "two codepoints whose glyph names coincide"
    if kind == "dup-basename":
        return [("stock/emoji_u1f601.svg", S(BODY.format(fill="#010203"))), ("override/emoji_u1f601.svg", S(BODY.format(fill="#a0b0c0")))], VECTOR_FORMATS + ["untouchedsvg"], [], "the same file name in two source directories"
    if kind == "dup-scheme":
        return [("emoji_u1f600.svg", S(BODY.format(fill="#010203"))), ("1f600.svg", S(BODY.format(fill="#a0b0c0")))], VECTOR_FORMATS + ["untouchedsvg", "cbdt"], [], "two files -> U+1F600"
    if kind == "dup-case":
        return [("emoji_u1f6aa.svg", S(BODY.format(fill="#010203"))), ("emoji_u1F6AA.svg", S(BODY.format(fill="#a0b0c0")))], VECTOR_FORMATS + ["untouchedsvg"], [], "two files differing in hex case -> U+1F6AA"
    if kind == "malformed-xml":
        return [("emoji_u1f601.svg", '<svg xmlns="http://www.w3.org/2000/svg" viewBox="0 0 100 100"><rect x="1" y="1" width="5" height="5" fill="red"></svg>')], VECTOR_FORMATS + ["untouchedsvg", "cbdt"], [], "mismatched tag"
    if kind == "truncated-xml":
        t = S(BODY.format(fill="#123456") * 3)
        return [("emoji_u1f601.svg", t[: len(t) // 2])], VECTOR_FORMATS + ["untouchedsvg", "cbdt"], [], "file cut in half"
    if kind == "unknown-colour":
        return [("emoji_u1f601.svg", S(BODY.format(fill=r.choice(["notacolour", "#12", "rgb(1,2)", "hsl(10,20%,30%)x", "#12345", "#FF00007", "#1234567", "rgb(100%, 0%, 0%)", "rgb(1,2,3x)", "rgba(1,2,3,0.5)", "rgb(1,2,3,4)", "rgb(50%,50%,50%)"]))))], VECTOR_FORMATS, [], "colour string nanoemoji cannot parse"
    if kind == "pattern-paint":
        return [("emoji_u1f601.svg", S(BODY.format(fill="url(#p)"), '<defs><pattern id="p" width="10" height="10" patternUnits="userSpaceOnUse"><rect width="5" height="5" fill="red"/></pattern></defs>'))], VECTOR_FORMATS, [], "pattern paint server"
    if kind == "missing-gradient":
        return [("emoji_u1f601.svg", S(BODY.format(fill="url(#nope)")))], VECTOR_FORMATS, [], "fill references a gradient that does not exist"
    if kind == "bad-spread":
        return [("emoji_u1f601.svg", S(BODY.format(fill="url(#g)"), '<defs><linearGradient id="g" spreadMethod="mirror"><stop offset="0" stop-color="red"/><stop offset="1" stop-color="blue"/></linearGradient></defs>'))], VECTOR_FORMATS, [], "unknown spreadMethod"
    if kind == "palette-conflict":
        return [("emoji_u1f601.svg", S(BODY.format(fill="var(--color1, #ff0000)") + '<circle cx="60" cy="70" r="20" fill="var(--color1, #00ff00)"/>'))], ["glyf_colr_1", "glyf_colr_0", "cff_colr_1"], [], "two colours declared for palette index 1"
    if kind == "bitmap-too-big":
        return [("emoji_u1f601.svg", S(BODY.format(fill="#334455")))], ["cbdt"], ["--bitmap_resolution", "300"], "300 px bitmap in CBDT"
    if kind == "masters-mismatch":
        return [("emoji_u1f601.svg", S(BODY.format(fill="#334455")))], ["glyf_colr_1", "glyf", "glyf_colr_0", "glyf", "glyf_colr_0"], [], "masters with different source-name sets"
    raise ValueError(kind)


def gen(case, lane):
    r = common.rng(ID, lane, case["seed"], case["i"])
    kind = DEFECTS[case["i"] % len(DEFECTS)]
    bad, fmts, flags, desc = make_defect(kind, r)
    fmt = r.choice(fmts)
    ncomp = r.randint(0, 4)
    comps = r.sample(GOOD, ncomp)
    preexisting = ncomp > 0 and r.random() < 0.5
    return kind, bad, fmt, flags, desc, comps, preexisting, r


def run_cli(case):
    from fontTools.ttLib import TTFont

    from vf.checks import c04, render_common as rc
    from vf.drive import cli

    kind, bad, fmt, flags, desc, comps, preexisting, r = gen(case, "cli")
    res = {"counters": {}, "violations": [], "tags": [kind, fmt, "preexisting" if preexisting else "fresh"]}
    c = res["counters"]
    root = common.mkscratch("c17-")
    try:
        src = root / "src"
        b = root / "build"
        base0 = ["--color_format", fmt, "--output_file", "Font.ttf", "--build_dir", str(b)] + (["--verbosity", "1"] if case["i"] % 4 == 1 else [])
        base = base0 + flags
        if fmt == "cbdt" and "--bitmap_resolution" not in flags:
            base += ["--bitmap_resolution", "32"]
        if fmt == "cbdt":
            base0 += ["--bitmap_resolution", "32"]  # the earlier, valid build is made without the defect-bearing flags
        cli.write_sources(src, [{"name": n, "svg": t} for n, t in comps])
        before = None
        env = cli.env_for(events=root / "ev.jsonl")
        if preexisting:
            rc0, out0 = cli.nanoemoji((base if not flags else base0) + sorted(n for n, _ in comps), src, env, timeout=300)
            if rc0 != 0:
                res["error"] = "valid companions did not build: " + out0[-600:]
                return res
            st = os.stat(b / "Font.ttf")
            before = (cli.sha256(b / "Font.ttf"), st.st_mtime_ns)
        cli.write_sources(src, [{"name": n, "svg": t} for n, t in bad if t is not None])
        names = [n for n, _ in comps] + [n for n, _ in bad]
        r.shuffle(names)
        if kind == "masters-mismatch":
            (src / "m2").mkdir()
            comps_ = comps or [GOOD[0]]
            for n, t in comps_:
                (src / n).write_text(t)
                (src / "m2" / n).write_text(t)  # the other master has only the companions: it lacks the extra source
            full = sorted({n for n, _ in comps_} | {n for n, _ in bad})
            less = ["m2/" + n for n, _ in comps_]
            # either the first or the second master is the one with the extra source
            first_has_more = r.random() < 0.6
            cfg = {
                "axis": {"wght": {"name": "Weight", "default": 400}},
                "master": {
                    "regular": {"style_name": "Regular", "position": {"wght": 400}, "srcs": full if first_has_more else less},
                    "bold": {"style_name": "Bold", "position": {"wght": 700}, "srcs": less if first_has_more else full},
                },
            }
            names = full
            import toml

            (src / "vf.toml").write_text(toml.dumps(cfg))
            args = base + ["vf.toml"]
        elif kind == "missing-listed-source":
            import toml

            (src / "listed.toml").write_text(toml.dumps({"axis": {"wght": {"name": "Weight", "default": 400}}, "master": {"regular": {"style_name": "Regular", "position": {"wght": 400}, "srcs": names}}}))
            args = base + ["listed.toml"]
        else:
            args = base + names
        rc1, out1 = cli.nanoemoji(args, src, env, timeout=300)
        c["cli_runs"] = 1
        font = b / "Font.ttf"
        ctx = {"defect": kind, "description": desc, "format": fmt, "files": names, "preexisting_font": preexisting}
        if rc1 is None:
            res["error"] = "watchdog"
            return res
        if rc1 != 0:
            c["stopped"] = 1
            if before is None and font.exists():
                res["violations"].append(dict(ctx, what="build exits non-zero but leaves a freshly written output font", exit=rc1))
            if before is not None:
                if not font.exists():
                    c["old_font_removed"] = 1
                else:
                    st = os.stat(font)
                    if (cli.sha256(font), st.st_mtime_ns) != before:
                        res["violations"].append(dict(ctx, what="build exits non-zero but rewrote the existing output font", exit=rc1))
        else:
            # exit 0: allowed only if the font really contains every source, distinct and intact
            problems = []
            try:
                f = TTFont(str(font), lazy=False)
                from nanoemoji import codepoints as cpmod

                seen = {}
                for n in names:
                    q = tuple(cpmod.from_filename(os.path.splitext(os.path.basename(n))[0]))
                    reached = rc.reach(f, q)
                    if len(reached) != 1:
                        problems.append(f"{n}: sequence reaches {reached}")
                        continue
                    if q in seen:
                        problems.append(f"{n} and {seen[q]} resolve to the same sequence {['U+%04X' % x for x in q]}: only one glyph can carry them")
                    seen[q] = n
            except Exception as e:
                problems.append(f"font unreadable: {e}")
            what = "defective input accepted (exit 0)" + (": " + "; ".join(problems[:3]) if problems else " and a font was written although the statement requires the build to stop")
            mech = None
            res["violations"].append(dict(ctx, what=what, mechanism=mech, output=out1[-400:]))
    finally:
        shutil.rmtree(root, ignore_errors=True)
    res["nontrivial"] = True
    res["key"] = common.sha([kind, fmt, [n for n, _ in comps], preexisting, case["i"]])
    if case["i"] < 2:
        res["sample"] = {"defect": kind, "format": fmt, "files": [n for n, _ in comps] + [n for n, _ in bad], "defective_source": (bad[0][1] or "(file absent)")[:300]}
    return res


def run_inproc(case):
    from vf.drive import inproc

    kinds = [k for k in DEFECTS if k not in ("masters-mismatch", "dup-basename", "missing-listed-source")]  # those two only exist for the driver
    r = common.rng(ID, "ip", case["seed"], case["i"])
    kind = kinds[case["i"] % len(kinds)]
    bad, fmts, flags, desc = make_defect(kind, r)
    fmt = r.choice(fmts)
    comps = r.sample(GOOD, r.randint(0, 4))
    items = list(comps) + list(bad)
    r.shuffle(items)
    res = {"counters": {}, "violations": [], "tags": ["inproc:" + kind, fmt]}
    c = res["counters"]
    cfg = {"color_format": fmt}
    pngs = None
    if kind == "bitmap-too-big":
        from vf.checks.c04 import make_png

        cfg["bitmap_resolution"] = 300
        pngs = [make_png((300, 300), (1, 2, 3), i) for i in range(len(items))]
    elif fmt == "cbdt":
        from vf.checks.c04 import make_png

        cfg["bitmap_resolution"] = 32
        pngs = [make_png((32, 32), (1, 2, 3), i) for i in range(len(items))]
    sources = [{"svg": t, "codepoints": None, "name": n} for n, t in items]
    from nanoemoji import codepoints as cpmod

    for s in sources:
        s["codepoints"] = list(cpmod.from_filename(os.path.splitext(s["name"])[0]))
    try:
        built = inproc.build(sources, cfg, use_filenames=True, pngs=pngs)
    except Exception as e:
        c["stopped"] = 1
        c["stopped:" + type(e).__name__] = 1
        res["nontrivial"] = True
        res["key"] = common.sha([kind, fmt, [n for n, _ in items]])
        return res
    if fmt == "cbdt" and kind in ("malformed-xml", "truncated-xml", "dup-scheme"):
        pass
    if kind in ("malformed-xml", "truncated-xml") and fmt == "cbdt":
        # in-process bitmap builds never parse the SVG (resvg does, on the CLI lane): not observable here
        c["not_observable_inproc"] = 1
        return res
    res["violations"].append({"what": f"defective input accepted by _generate_color_font ({desc})", "defect": kind, "format": fmt, "files": [n for n, _ in items]})
    res["nontrivial"] = True
    res["key"] = common.sha([kind, fmt, [n for n, _ in items]])
    return res


def plan(tier, seed):
    return [{"id": f"{seed}-cli{i}", "kind": "cli", "i": i} for i in range(N_CLI[tier])] + [{"id": f"{seed}-ip{i}", "kind": "inproc", "i": i} for i in range(N_INPROC[tier])]


def run_case(case):
    if case["kind"] == "cli":
        return run_cli(case)
    from vf.drive import inproc

    inproc.init()
    return run_inproc(case)


def finish(agg):
    t = agg["tags"]
    inc = []
    for k in DEFECTS:
        if t.get(k, 0) == 0:
            inc.append(f"defect class never exercised on the CLI: {k}")
    if t.get("preexisting", 0) == 0:
        inc.append("no case with a pre-existing output font")
    return {"inconclusive": inc}
