"""C06 — Shape and gradient reuse never changes what is painted (reuse on == reuse off)."""
import math
import traceback

from vf import common
from vf.checks import c01
from vf.gen import svggen

ID = "C06"
LEVEL = "exploration"
RULE = (
    "case = one recurrence-heavy source set (rotation, reflection, non-uniform scale, near-misses just inside / outside the "
    "tolerance, tiny donors reused at x5..x400, copies at 1/100 scale, gradients on reused shapes, viewBoxes of different "
    "scale) built twice from identical inputs, reuse_tolerance t >= 0 vs -1, in {glyf_colr_1, glyf_colr_0, picosvg}; both "
    "builds must succeed (or both be refused for range) and every glyph's display list must agree layer for layer within "
    "t*nseg + quantisation.  Non-trivial = pair in which the reuse build took >= 1 reuse (H2 hit counter) and the no-reuse "
    "build took none."
)
ASSUMPTIONS = ["the COLR / SVG-document evaluators of C01/C02 interpret both fonts", "allowance per DESIGN 2.4 with tau = 1.5 * t * nseg"]
N = {"quick": 240, "thorough": 4800}
FORMATS = ("glyf_colr_1", "glyf_colr_1", "glyf_colr_0", "picosvg")


NCLI = {"quick": 10, "thorough": 100}


def plan(tier, seed):
    return [{"id": f"{seed}-{i}", "i": i} for i in range(N[tier])] + [{"id": f"{seed}-cli{i}", "i": 50000 + i, "lane": "cli", "timeout": 900} for i in range(NCLI[tier])]


def near_miss_set(r, fmt, tol, scale_font_per_vb, vb):
    """Polygon + copies under isometries with per-vertex noise of a chosen size relative to the tolerance
    (tolerance is in font units for COLR and in viewBox units for OT-SVG)."""
    n = r.randint(3, 7)
    cx, cy, s = vb * r.uniform(0.3, 0.5), vb * r.uniform(0.3, 0.5), vb * r.uniform(0.08, 0.18)
    if r.random() < 0.5:
        s *= 0.25  # a small first copy leaves room for much larger ones
    a0 = r.uniform(0, 6.28)
    base = [(cx + s * r.uniform(0.6, 1) * math.cos(a0 + 2 * math.pi * i / n), cy + s * r.uniform(0.6, 1) * math.sin(a0 + 2 * math.pi * i / n)) for i in range(n)]
    tol_vb = tol if fmt == "picosvg" else tol / scale_font_per_vb
    out = []
    metas = []
    for g in range(r.randint(2, 3)):
        body = ""
        for c in range(r.randint(1, 3)):
            ang = r.choice([0, 0, r.uniform(-3.1, 3.1), math.pi / 2])
            mir = r.random() < 0.25
            dx, dy = r.uniform(-0.15, 0.25) * vb, r.uniform(-0.15, 0.25) * vb
            k = r.choice([0.0, 0.3, 0.9, 1.1, 3.0])
            # later copies may also be (much) larger than the first one, with noise sized against the tolerance in
            # *their* units or in the donor's (tolerance x scale): a tolerance test done in the wrong space shows here
            sc = 1.0 if (g == 0 and c == 0) or r.random() < 0.5 else r.choice([2.0, 4.0, 8.0, 10.0, 0.25])
            if sc > 1 and r.random() < 0.6:
                k = k * sc
            metas.append(round(k, 2))
            pts = []
            for (x, y) in base:
                x0, y0 = (x - cx) * sc, (y - cy) * sc
                if mir:
                    x0 = -x0
                xr = x0 * math.cos(ang) - y0 * math.sin(ang)
                yr = x0 * math.sin(ang) + y0 * math.cos(ang)
                pts.append((cx + xr + dx + r.uniform(-1, 1) * k * tol_vb, cy + yr + dy + r.uniform(-1, 1) * k * tol_vb))
            d = "M" + " L".join(f"{x:.4f},{y:.4f}" for x, y in pts) + " Z"
            body += f'<path d="{d}" fill="{svggen.rnd_color(r, None, allow_var=False)}"/>'
        out.append(f'<svg xmlns="http://www.w3.org/2000/svg" viewBox="0 0 {vb} {vb}"><defs/>{body}</svg>')
    return out, {"noise_over_tolerance": metas}


def tiny_donor_set(r, tol_vb, vb):
    """A tiny polygon first, then copies 20-30x larger whose vertices are off by a chosen multiple of
    tolerance x scale: inside the tolerance when measured in the donor's space, far outside it where the copy is painted."""
    n = r.randint(3, 4)
    rad = vb * 0.01
    cx, cy = vb * 0.1, vb * 0.1
    a0 = r.uniform(0, 6.28)
    base = [(cx + rad * r.uniform(0.7, 1) * math.cos(a0 + 2 * math.pi * i / n), cy + rad * r.uniform(0.7, 1) * math.sin(a0 + 2 * math.pi * i / n)) for i in range(n)]
    d0 = "M" + " L".join(f"{x:.4f},{y:.4f}" for x, y in base) + " Z"
    out, metas = [], []
    for g in range(2):
        body = f'<path d="{d0}" fill="#cc2200"/>' if g == 0 else ""
        sc = r.choice([25.0, 35.0, 45.0])
        k = r.choice([0.45, 0.45, 0.3, 0.0, 1.5])
        amp = k * tol_vb * sc
        metas.append([sc, k])
        bx, by = vb * r.uniform(0.5, 0.55), vb * r.uniform(0.5, 0.55)
        pts = [(bx + (x - cx) * sc + r.uniform(-amp, amp), by + (y - cy) * sc + r.uniform(-amp, amp)) for x, y in base]
        d = "M" + " L".join(f"{x:.4f},{y:.4f}" for x, y in pts) + " Z"
        body += f'<path d="{d}" fill="#0033cc"/>'
        out.append(f'<svg xmlns="http://www.w3.org/2000/svg" viewBox="0 0 {vb} {vb}"><defs/>{body}</svg>')
    return out, {"scale_and_noise_over_tolerance_x_scale": metas}


def tiny_copy_big_gradient_set(r, vb=1000):
    """A large outline first, then a copy 32-80x smaller filled with a gradient that is huge relative to the copy
    (wide linear, large circular or elliptical radial, in absolute user-space units): mapping that gradient into the
    donor's space leaves int16 / uint16, which is what the encoder's overflow fallbacks exist for."""
    n = r.randint(3, 6)
    R = vb * r.uniform(0.2, 0.3)
    cx, cy = vb * 0.5, vb * 0.45
    a0 = r.uniform(0, 6.28)
    base = [(cx + R * r.uniform(0.7, 1) * math.cos(a0 + 2 * math.pi * i / n), cy + R * r.uniform(0.7, 1) * math.sin(a0 + 2 * math.pi * i / n)) for i in range(n)]
    # the inverse of the placing transform must itself stay inside Fixed 16.16 (translation = scale x position), so
    # the copy sits near the origin corner
    sc = r.choice([40.0, 48.0, 64.0, 80.0])
    qx, qy = vb * r.uniform(0.08, 0.3), vb * r.uniform(0.7, 0.92)
    small = [(qx + (x - cx) / sc, qy + (y - cy) / sc) for x, y in base]
    d0 = "M" + " L".join(f"{x:.3f},{y:.3f}" for x, y in base) + " Z"
    d1 = "M" + " L".join(f"{x:.4f},{y:.4f}" for x, y in small) + " Z"
    kind = r.choice(["linear-wide", "linear-wide", "radial-circular", "radial-elliptical", "radial-elliptical"])
    stops = '<stop offset="0" stop-color="#ff2000"/><stop offset="1" stop-color="#0030ff"/>'
    if kind == "linear-wide":
        # half of them sized so that the mapped end points still fit int16 while the rotated point P2 does not
        L_ = vb * (r.uniform(0.18, 0.45) if r.random() < 0.5 else r.uniform(0.15, 0.9))
        ang = r.uniform(0, 3.14)
        grad = f'<linearGradient id="tg" gradientUnits="userSpaceOnUse" x1="{qx - L_ * math.cos(ang):.3f}" y1="{qy - L_ * math.sin(ang):.3f}" x2="{qx + L_ * math.cos(ang):.3f}" y2="{qy + L_ * math.sin(ang):.3f}">{stops}</linearGradient>'
    else:
        if kind == "radial-elliptical":
            sc = r.choice([64.0, 80.0])
            small = [(qx + (x - cx) / sc, qy + (y - cy) / sc) for x, y in base]
            d1 = "M" + " L".join(f"{x:.4f},{y:.4f}" for x, y in small) + " Z"
        rad = vb * r.uniform(0.9 if kind == "radial-elliptical" else 0.6, 2.0)
        # the copy sits well off the gradient's centre, along the axis an elliptical gradient squeezes
        gx, gy = qx + rad * r.uniform(-0.3, 0.3), qy + rad * r.uniform(0.25, 0.6) * r.choice([-1, 1])
        gt = ""
        if kind == "radial-elliptical":
            gt = f' gradientTransform="translate({gx:.3f} {gy:.3f}) scale(1 {r.uniform(0.4, 0.8):.3f}) translate({-gx:.3f} {-gy:.3f})"'
        grad = f'<radialGradient id="tg" gradientUnits="userSpaceOnUse" cx="{gx:.3f}" cy="{gy:.3f}" r="{rad:.3f}"{gt}>{stops}</radialGradient>'
    same_glyph = r.random() < 0.5
    donor = f'<path d="{d0}" fill="#335577"/>'
    copy_ = f'<path d="{d1}" fill="url(#tg)"/>'
    if same_glyph:
        svgs = [f'<svg xmlns="http://www.w3.org/2000/svg" viewBox="0 0 {vb} {vb}"><defs>{grad}</defs>{donor}{copy_}</svg>']
    else:
        svgs = [f'<svg xmlns="http://www.w3.org/2000/svg" viewBox="0 0 {vb} {vb}"><defs/>{donor}</svg>', f'<svg xmlns="http://www.w3.org/2000/svg" viewBox="0 0 {vb} {vb}"><defs>{grad}</defs>{copy_}</svg>']
    return svgs, {"inverse_scale": sc, "gradient": kind}


def grouped_reuse_set(r, vb=100, single_copy_glyph=False):
    """Opacity groups whose children mix copies of an earlier outline (which the encoder places through a transform)
    with outlines of their own, overlapping, in varying order: the z-order inside the group must not depend on which
    children happen to be re-used."""
    def poly(cx, cy, rad, n, a0):
        return [(cx + rad * math.cos(a0 + 2 * math.pi * i / n), cy + rad * math.sin(a0 + 2 * math.pi * i / n)) for i in range(n)]

    def d_of(pts):
        return "M" + " L".join(f"{x:.3f},{y:.3f}" for x, y in pts) + " Z"

    col = lambda: "#%02x%02x%02x" % (r.randint(0, 255), r.randint(0, 255), r.randint(0, 255))
    n = r.randint(3, 6)
    a0 = r.uniform(0, 6.28)
    donor = poly(vb * 0.25, vb * 0.3, vb * 0.15, n, a0)
    svgs = []
    exclusive = single_copy_glyph and r.random() < 0.5  # the donor outline is used by the group once and by the single-shape glyph, nowhere else
    for g in range(1 if exclusive else r.randint(1, 2)):
        kids = []
        for k in range(r.randint(2, 4)):
            cx, cy = vb * r.uniform(0.45, 0.7), vb * r.uniform(0.45, 0.7)
            if r.random() < 0.5 and not exclusive:
                sc, ang = r.choice([0.5, 0.75, 1.0, 1.3]), r.choice([0.0, 0.0, r.uniform(-3, 3)])
                pts = [(cx + sc * ((x - vb * 0.25) * math.cos(ang) - (y - vb * 0.3) * math.sin(ang)), cy + sc * ((x - vb * 0.25) * math.sin(ang) + (y - vb * 0.3) * math.cos(ang))) for x, y in donor]
            else:
                pts = poly(cx, cy, vb * r.uniform(0.08, 0.2), r.choice([m for m in (3, 4, 5, 7) if m != n]), r.uniform(0, 6.28))
                pts = [(x * (1 + 0.3 * (i % 2)), y) for i, (x, y) in enumerate(pts)]  # irregular: congruent to nothing else
            kids.append(f'<path d="{d_of(pts)}" fill="{col()}"/>')
        first = f'<path d="{d_of(donor)}" fill="{col()}"/>' if (g == 0 or r.random() < 0.5) else ""
        if first and single_copy_glyph and (exclusive or r.random() < 0.6):
            # the donor outline itself lives inside the group, not as its last child
            kids.insert(r.randrange(len(kids)), first)  # never the last child
            first = ""
        grp = f'<g opacity="{r.choice([0.4, 0.5, 0.75])}">' + "".join(kids) + "</g>"
        svgs.append(f'<svg xmlns="http://www.w3.org/2000/svg" viewBox="0 0 {vb} {vb}"><defs/>{first}{grp}</svg>')
    if single_copy_glyph:
        # a glyph that consists of exactly one shape: a moved / scaled copy of the donor outline
        sc, dx, dy = r.choice([0.5, 0.8, 1.0, 1.25]), vb * r.uniform(0.1, 0.4), vb * r.uniform(0.1, 0.4)
        pts = [(vb * 0.4 + dx * 0.5 + sc * (x - vb * 0.25), vb * 0.4 + dy * 0.5 + sc * (y - vb * 0.3)) for x, y in donor]
        svgs.append(f'<svg xmlns="http://www.w3.org/2000/svg" viewBox="0 0 {vb} {vb}"><defs/><path d="{d_of(pts)}" fill="{col()}"/></svg>')
    return svgs


def gen_case(case):
    r = common.rng(ID, case["seed"], case["i"])
    pal = svggen.FontPalette(r)
    fmt = r.choice(FORMATS)
    cfg = svggen.font_config(r, (fmt,), small_upem=r.random() < 0.3)
    tol = r.choice([0.1, 0.1, 0.1, 0.05, 0.5, 1.0, 0.0, 2.0])
    cfg["reuse_tolerance"] = tol
    if r.random() < 0.5:
        cfg["clip_to_viewbox"] = False
    mode = r.random()
    meta = {"fmt": fmt}
    if mode < 0.08:
        svgs = grouped_reuse_set(r, r.choice([100, 128]))
        if tol in (0.0, -1, 2.0):
            cfg["reuse_tolerance"] = 0.1
        cfg.pop("transform", None)
        meta.update(mode="grouped-reuse")
    elif mode < 0.18:
        svgs, m = tiny_copy_big_gradient_set(r, r.choice([1000, 1000, 128]))
        fmt = r.choice(["glyf_colr_1", "glyf_colr_1", "cff_colr_1", "picosvg"])
        cfg["color_format"] = fmt
        cfg.pop("transform", None)
        if tol in (0.0, -1, 2.0, 1.0):
            cfg["reuse_tolerance"] = 0.1
        if cfg["upem"] < 1000:
            cfg["upem"], cfg["ascender"], cfg["descender"] = 1024, 950, -250
        meta.update(mode="tiny-copy-big-gradient", fmt=fmt, **m)
    elif mode < 0.22:
        svgs = svggen.same_body_other_viewbox_set(r, r.randint(2, 4), pal=pal)
        if tol in (0.0, -1):
            cfg["reuse_tolerance"] = 0.1
        meta.update(mode="same-body-other-viewbox")
    elif mode < 0.27:
        svgs = svggen.paint_varied_reuse_set(r, r.randint(1, 3), defaults=True)
        if tol in (0.0, -1):
            cfg["reuse_tolerance"] = 0.1
        if r.random() < 0.75:
            fmt = "picosvg"  # where per-use paint attributes exist
            cfg["color_format"] = fmt
        meta.update(mode="paint-varied-reuse", fmt=fmt)
    elif mode < 0.32:
        vb = r.choice([128, 1000])
        em = cfg["ascender"] - cfg["descender"]
        t_ = max(tol, 0.05)
        svgs, m = tiny_donor_set(r, t_ if fmt == "picosvg" else t_ / (em / vb), vb)
        meta.update(mode="tiny-donor-huge-near-miss", **m)
    elif mode < 0.4:
        svgs, gcfg, m = svggen.grid_recurrence_set(r, r.randint(2, 3), pal=pal)
        keep_clip = cfg["clip_to_viewbox"]
        cfg.update(gcfg)
        cfg["clip_to_viewbox"] = keep_clip
        cfg.pop("transform", None)
        if tol == 0.0:
            cfg["reuse_tolerance"] = 0.1
        meta.update(mode="grid-recurrence", transforms=m["transforms"])
    elif mode < 0.52:
        vb = r.choice([24, 128, 1000])
        em = cfg["ascender"] - cfg["descender"]
        svgs, m = near_miss_set(r, fmt, max(tol, 0.05), em / vb, vb)
        meta.update(mode="near-miss", **m)
    elif mode < 0.62:
        svgs, m = svggen.recurrence_set(r, r.randint(2, 3), pal, same_vb=True, tkinds=["bigscale", "bigscale", "uscale", "rotate"], vb_choices=(128, 1000))
        meta.update(mode="bigscale", transforms=m["transforms"])
    elif mode < 0.68:
        # donor first, copies at ~1/100 scale: the inverse transform for gradients leaves Fixed range
        svgs, m = svggen.recurrence_set(r, 2, pal, same_vb=True, vb_choices=(1000,))
        tiny = f"translate({r.uniform(300, 700):.1f} {r.uniform(300, 700):.1f}) scale({r.uniform(0.004, 0.02):.4f})"
        svgs[1] = svgs[1].replace('transform="', f'transform="{tiny} ', 1)
        meta.update(mode="tinyscale")
    elif mode < 0.78:
        svgs, m = svggen.recurrence_set(r, r.randint(2, 4), pal, same_vb=False, vb_choices=(24, 128, 1000, 4000))
        meta.update(mode="mixed-viewbox", transforms=m["transforms"])
    else:
        svgs, m = svggen.recurrence_set(r, r.randint(2, 4), pal, same_vb=True)
        meta.update(mode="recurrence", transforms=m["transforms"])
    seqs = svggen.sequences(r, len(svgs), long_names=False)
    return [{"svg": s, "codepoints": list(q)} for s, q in zip(svgs, seqs)], cfg, meta


def display_lists(built):
    """{input index: [Layer]} for a COLRv1 / COLRv0 / picosvg font."""
    from vf.checks import render_common as rc
    from vf.oracle import colreval

    font = built.font
    fmt = built.cfg.color_format
    out = {}
    ev = colreval.Evaluator(font) if "COLR" in font else None
    for i, inp in enumerate(built.inputs):
        reached = rc.reach(font, inp.codepoints)
        if len(reached) != 1:
            out[i] = ("unreachable", reached)
            continue
        name = reached[0]
        if fmt.startswith("picosvg"):
            gid = font.getGlyphID(name)
            docs = [d for d in rc.svg_docs(font) if d[1] <= gid <= d[2]]
            if not docs:
                out[i] = ("layers", [])
                continue
            probs = []
            layers, _ = rc.svg_glyph_layers(font, gid, probs, {})
            out[i] = ("layers", [l for l in layers if l.contours]) if layers is not None else ("bad", probs)
        else:
            if not ev.has_glyph(name):
                out[i] = ("layers", [])
            else:
                out[i] = ("layers", [l for l in ev.display_list(name) if l.contours])
    return out


def run_case(case):
    from vf.checks import render_common as rc
    from vf.drive import inproc
    from vf.hooks import contracts
    from vf.oracle import compare, geom

    sources, cfg, meta = gen_case(case)
    fmt = cfg["color_format"]
    res = {"counters": {}, "maxes": {}, "violations": [], "tags": [fmt, meta["mode"], "t=%g" % cfg["reuse_tolerance"]]}
    c = res["counters"]
    try:
        norm = [inproc.picosvg_normal(s["svg"], cfg["clip_to_viewbox"]) for s in sources]
    except Exception:
        c["picosvg_rejected"] = 1
        return res
    if any(c01.has_empty_path(n) for n in norm):
        c["skipped_empty_path_after_clip"] = 1
        return res
    contracts.install()
    outcome = {}
    hits = {}
    # "A negative value means that shape reuse is disabled" (flag help): -1 mostly, other negative values too
    off = common.rng(ID, "off", case["seed"], case["i"]).choice([-1, -1, -1, -0.5, -2, -0.001, -10])
    if off != -1:
        res["tags"].append("noreuse-tolerance-other-than-minus-1")
    for label, tol in (("reuse", cfg["reuse_tolerance"]), ("noreuse", off)):
        contracts.reset()
        try:
            if case.get("lane") == "cli":
                # the whole pipeline incl. the part-file steps, which only exist on the CLI
                import shutil

                scratch = common.mkscratch("c06cli-")
                try:
                    b, info = rc.built_from_cli(sources, dict(cfg, reuse_tolerance=tol), scratch)
                finally:
                    shutil.rmtree(scratch, ignore_errors=True)
                if "cli-lane" not in res["tags"]:
                    res["tags"].append("cli-lane")
                if b is None:
                    out = info["output"]
                    if rc.cli_refusal(out) or any(k in out for k in ("already maps to", "Expected uniform scale")):
                        outcome[label] = ("refused", out[-300:])
                    else:
                        outcome[label] = ("raised", f"CLI exit {info['rc']}", out)
                    hits[label] = {}
                    continue
                cnt = {}
                for e in info["contract_events"]:
                    for k, n in (e.get("counters") or {}).items():
                        cnt[k] = cnt.get(k, 0) + n
                    for v in e.get("violations") or []:
                        v["build"] = label
                        res["violations"].append(v)
                outcome[label] = ("ok", b)
                hits[label] = cnt
                continue
            b = inproc.build(sources, dict(cfg, reuse_tolerance=tol), normalised=norm)
            outcome[label] = ("ok", b)
        except Exception as e:
            if rc.is_overflow_refusal(e) or (isinstance(e, ValueError) and "already maps to" in str(e)) or (isinstance(e, ValueError) and "Expected uniform scale" in str(e)):
                outcome[label] = ("refused", f"{type(e).__name__}: {str(e)[:200]}")
            else:
                outcome[label] = ("raised", f"{type(e).__name__}: {str(e)[:300]}", traceback.format_exc()[-1500:])
        hits[label] = contracts.counters()
        for v in contracts.violations():
            v["build"] = label
            res["violations"].append(v)
    for k, v in hits["reuse"].items():
        c["A." + k] = v
    c["B.reuse_hits"] = hits["noreuse"].get("H2.reuse_hits", 0)
    kinds = (outcome["reuse"][0], outcome["noreuse"][0])
    if "raised" in kinds:
        res["violations"].append({"what": f"both builds must succeed: reuse build {outcome['reuse'][:2]}, no-reuse build {outcome['noreuse'][:2]}", "config": cfg, "trace": [o[2] for o in outcome.values() if o[0] == "raised"][0]})
        return res
    if kinds != ("ok", "ok"):
        if kinds[0] != kinds[1]:
            res["violations"].append({"what": f"one build is refused and the other is not: reuse={outcome['reuse'][:2]} noreuse={outcome['noreuse'][:2]}", "config": cfg})
        else:
            c["both_refused"] = 1
        return res
    A, B = outcome["reuse"][1], outcome["noreuse"][1]
    if hits["noreuse"].get("H2.reuse_hits", 0):
        res["violations"].append({"what": f"reuse taken although disabled (tolerance {off})", "config": cfg})
    la, lb = display_lists(A), display_lists(B)
    vbs = [__import__("vf.oracle.svgeval", fromlist=["x"]).view_box(n) for n in norm]
    for i in la:
        ka, va = la[i]
        kb, vb_ = lb[i]
        if ka != "layers" or kb != "layers":
            res["violations"].append({"what": f"glyph cannot be evaluated: reuse={ka}:{va if ka != 'layers' else ''} noreuse={kb}:{vb_ if kb != 'layers' else ''}", "input": i, "config": cfg})
            continue
        t = cfg["reuse_tolerance"]
        if fmt == "picosvg":
            s = (A.cfg.ascender - A.cfg.descender) / vbs[i][3] * max(1.0, geom.sigma_max(rc.user_matrix(A.cfg)))
            tol = compare.Tol(A.cfg.upem, output="svg", tau_seg=t * s)
        else:
            # the reference here is itself a compiled font (the no-reuse build): its outlines carry their own integer
            # rounding (half a unit per axis), which the source-referenced tolerance of C01 does not have to allow for
            tol = compare.Tol(A.cfg.upem, output="colr", tau_seg=t, truetype=True, extra=0.7072)
        pr, st = compare.compare_layers(vb_, va, tol)
        for p in pr:
            p.update({"input": i, "config": cfg, "codepoints": sources[i]["codepoints"]})
            if fmt == "picosvg" and p["what"] == "outline displaced" and p.get("layer", 99) < len(va):
                gl = va[p["layer"]]
                e_svg = getattr(gl, "err_svg", 0.0)
                if p["hausdorff"] <= p["eps_out"] + e_svg:
                    p["mechanism"] = "F8-svg-transform-3-decimals"
                p["err_svg"] = round(e_svg, 3)
            res["violations"].append(p)
        c["glyphs"] = c.get("glyphs", 0) + 1
        c["layers"] = c.get("layers", 0) + len(vb_)
        c["gradient_layers"] = c.get("gradient_layers", 0) + st["gradient_layers"]
        c["reused_layers_seen"] = c.get("reused_layers_seen", 0) + sum(1 for l in va if l.transformed)
        for k in ("max_h_over_eps", "max_h", "max_colour_excess"):
            res["maxes"][k] = max(res["maxes"].get(k, 0.0), st[k])
    res["nontrivial"] = hits["reuse"].get("H2.reuse_hits", 0) > 0 and hits["noreuse"].get("H2.reuse_hits", 0) == 0
    res["key"] = common.sha([sources, cfg])
    if case["i"] < 2:
        res["sample"] = {"config": cfg, "meta": meta, "sources": [s["svg"][:400] for s in sources][:2], "reuse_hits": hits["reuse"].get("H2.reuse_hits", 0)}
    return res


def finish(agg):
    c = agg["counters"]
    inc = []
    need = ["A.H2.reuse_hits", "A.H2.hit_mirror", "gradient_layers", "reused_layers_seen"]
    if agg["tier"] == "thorough":
        need.append("A.H10.reuse_declined_overflow")
    for k in need:
        if c.get(k, 0) == 0:
            inc.append(f"deciding monitor/branch never reached: {k}")
    for f in set(FORMATS):
        if agg["tags"].get(f, 0) == 0:
            inc.append(f"format never built: {f}")
    return {"inconclusive": inc, "coverage": {"overflow_fallback_branch_hits": c.get("A.H10.reuse_declined_overflow", 0)}}
