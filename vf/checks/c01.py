"""C01 — COLRv1 glyph paints the same picture as its source SVG."""
import traceback

from vf import common
from vf.gen import svggen

ID = "C01"
LEVEL = "exploration"
RULE = (
    "case = one font of 1-6 generated sources (random shapes/gradients/groups + recurrence sets so reuse fires) x sampled "
    "config x {glyf,cff,cff2}_colr_1, built through the real pipeline in-process; each glyph compared layer by layer with "
    "the SVG evaluator on its picosvg-normal source.  Non-trivial = a glyph with >=2 layers, a gradient, an opacity group or "
    "a transformed (reused) layer; distinct = distinct hashes of (sources, config)."
)
ASSUMPTIONS = [
    "picosvg-normal form of a raw source (output of the real picosvg) is the reference meaning",
    "radial focal point strictly inside the end circle; gradient vectors >= 5% of the shape",
    "tolerances per DESIGN 2.4: (0.75+0.001 upem)*sigma + fixed-point error + reuse_tolerance*nseg",
]
N = {"quick": 192, "thorough": 5000}
FORMATS = ("glyf_colr_1", "glyf_colr_1", "cff_colr_1", "cff2_colr_1")


NCLI = {"quick": 12, "thorough": 120}


def plan(tier, seed):
    return [{"id": f"{seed}-{i}", "i": i} for i in range(N[tier])] + [{"id": f"{seed}-cli{i}", "i": 100000 + i, "lane": "cli", "timeout": 900} for i in range(NCLI[tier])]


def gen_case(case, formats=FORMATS, prop=ID):
    r = common.rng(prop, case["seed"], case["i"])
    pal = svggen.FontPalette(r)
    cfg = svggen.font_config(r, formats)
    srcs = []
    mode = r.random()
    meta = {"mode": None}
    if mode < 0.05:
        # the encoder's overflow fallbacks: a copy 40-80x smaller than its donor under a gradient that is huge
        # relative to the copy
        from vf.checks import c06

        meta["mode"] = "tiny-copy-big-gradient"
        svgs, m = c06.tiny_copy_big_gradient_set(r, 1000)
        meta.update(m)
        srcs.extend(svgs)
        cfg.pop("transform", None)
        cfg["reuse_tolerance"] = 0.1
        if cfg["upem"] < 1000 or cfg["upem"] > 2048:
            cfg["upem"], cfg["ascender"], cfg["descender"] = 1024, 950, -250
    elif mode < 0.1:
        meta["mode"] = "same-body-other-viewbox"
        srcs.extend(svggen.same_body_other_viewbox_set(r, r.randint(2, 4), pal=pal))
        if cfg.get("reuse_tolerance", 0.1) in (-1, 0.0) and r.random() < 0.7:
            cfg["reuse_tolerance"] = 0.1
    elif mode < 0.22:
        meta["mode"] = "grid-recurrence"
        svgs, gcfg, m = svggen.grid_recurrence_set(r, r.randint(2, 3), pal=pal)
        meta["transforms"] = m["transforms"]
        for k_, v_ in gcfg.items():
            cfg[k_] = v_
        cfg.pop("transform", None)
        if cfg.get("reuse_tolerance", 0.1) in (-1, 0.0):
            cfg["reuse_tolerance"] = 0.1
        srcs.extend(svgs)
    elif mode < 0.245:
        meta["mode"] = "twin-gradients"
        for g in range(r.randint(1, 2)):
            srcs.append(svggen.twin_gradient_source(r, g)[0])
    elif mode < 0.27:
        # a thin bar far from the baseline under a bounding-box gradient, ordinary metrics: the gradient frame's
        # pre-image under the residual matrix is where a 16-bit field is most easily exceeded (and only there)
        meta["mode"] = "thin-bar-gradient"
        cfg["upem"], cfg["ascender"], cfg["descender"] = r.choice([(1024, 950, -250), (1000, 800, -200), (2048, 1900, -500)])
        cfg["width"] = cfg["ascender"] - cfg["descender"]
        cfg.pop("transform", None)
        vb = r.choice([100, 128, 1000])
        w = vb * r.uniform(0.7, 0.95)
        h = w / r.uniform(25, 160)
        x0, y0 = (vb - w) * r.uniform(0, 1), vb * r.choice([r.uniform(0.02, 0.25), r.uniform(0.02, 0.9)])
        if r.random() < 0.3:
            x0, y0, w, h = y0, x0, h, w
        st = svggen.stops_xml(r, pal)
        gx = f'<radialGradient id="b" cx="{r.uniform(0.3, 0.7):.2f}" cy="{r.uniform(0.3, 0.7):.2f}" r="{r.uniform(0.3, 0.6):.2f}">{st}</radialGradient>' if r.random() < 0.7 else f'<linearGradient id="b" x1="0" y1="0" x2="1" y2="1">{st}</linearGradient>'
        srcs.append(f'<svg xmlns="http://www.w3.org/2000/svg" viewBox="0 0 {vb} {vb}"><defs>{gx}</defs><rect x="{x0:.2f}" y="{y0:.2f}" width="{w:.2f}" height="{h:.2f}" fill="url(#b)"/><rect x="{vb * 0.4:.1f}" y="{vb * 0.6:.1f}" width="{vb * 0.2:.1f}" height="{vb * 0.2:.1f}" fill="{svggen.rnd_color(r, pal)}"/></svg>')
    elif mode < 0.45:
        meta["mode"] = "random"
        for g in range(r.randint(1, 4)):
            t, m = svggen.svg_source(r, g, pal, outside=not cfg["clip_to_viewbox"] or r.random() < 0.3)
            srcs.append(t)
    elif mode < 0.85:
        meta["mode"] = "recurrence"
        svgs, m = svggen.recurrence_set(r, r.randint(2, 4), pal, same_vb=r.random() < 0.7)
        meta["transforms"] = m["transforms"]
        srcs.extend(svgs)
    else:
        meta["mode"] = "mixed"
        svgs, m = svggen.recurrence_set(r, 2, pal)
        srcs.extend(svgs)
        t, m = svggen.svg_source(r, 9, pal)
        srcs.append(t)
    seqs = svggen.sequences(r, len(srcs), long_names=False)
    sources = [{"svg": s, "codepoints": list(q)} for s, q in zip(srcs, seqs)]
    return sources, cfg, meta


def has_empty_path(svg_text):
    import re

    for m in re.finditer(r"<path\b[^>]*>", svg_text):
        d = re.search(r'\sd="([^"]*)"', m.group(0))
        if d is None or not d.group(1).strip():
            return True
    return False


def run_case(case):
    from vf.checks import render_common as rc
    from vf.drive import inproc
    from vf.hooks import contracts

    sources, cfg, meta = gen_case(case)
    res = {"counters": {}, "maxes": {}, "violations": [], "tags": [meta["mode"], cfg["color_format"]]}
    try:
        norm = [inproc.picosvg_normal(s["svg"], cfg["clip_to_viewbox"]) for s in sources]
    except Exception as e:
        res["counters"]["picosvg_rejected"] = 1
        return res
    if any(has_empty_path(n) for n in norm):
        # picosvg's clip_to_viewbox leaves <path> elements without a "d" for shapes that lie wholly
        # outside the viewBox; such a document is not a picosvg-normal *drawing* (nanoemoji asserts on it,
        # see DESIGN section 4, observation O1) and is outside the input space of the property.
        res["counters"]["skipped_empty_path_after_clip"] = 1
        res["tags"].append("skipped-empty-path")
        return res
    contracts.install()
    contracts.reset()
    cli_info = None
    try:
        if case.get("lane") == "cli":
            # end-to-end: the real console script, picosvg, ninja and every step process, contracts on inside the steps
            import shutil

            scratch = common.mkscratch("c01cli-")
            try:
                built, cli_info = rc.built_from_cli(sources, cfg, scratch)
            finally:
                shutil.rmtree(scratch, ignore_errors=True)
            res["tags"].append("cli-lane")
            if built is None:
                out = cli_info["output"]
                if rc.cli_refusal(out) or "doesn't look like a path" in out:
                    res["counters"]["build_refused_overflow"] = 1
                    return res
                res["violations"].append({"what": f"CLI build failed (exit {cli_info['rc']}) on valid input", "output": out, "config": cfg})
                return res
            res["counters"]["cli_builds"] = 1
            for e in cli_info["contract_events"]:
                for v in e.get("violations") or []:
                    v["what"] = f"in CLI step {e['step']}: " + v["what"]
                    res["violations"].append(v)
                for k, n in (e.get("counters") or {}).items():
                    res["counters"]["cli." + k] = res["counters"].get("cli." + k, 0) + n
        else:
            built = inproc.build(sources, cfg, normalised=norm)
    except Exception as e:
        if rc.is_overflow_refusal(e):
            # an explicit refusal because a value does not fit the OpenType field is a legal outcome
            res["counters"]["build_refused_overflow"] = 1
            res["tags"].append("refused-overflow")
            return res
        res["violations"].append({"what": f"build raised {type(e).__name__}: {str(e)[:300]}", "mechanism": None, "trace": traceback.format_exc()[-1500:], "config": cfg})
        return res
    problems, stats = rc.check_colr_font(built)
    for p in problems:
        p["config"] = cfg
        res["violations"].append(p)
    for v in contracts.violations():
        res["violations"].append(v)
    c = res["counters"]
    for k in ("glyphs", "layers", "gradient_layers", "groups", "undecided_gradient_layers", "transformed_layers", "nontrivial_glyphs"):
        c[k] = stats[k]
    c.update(contracts.counters())
    for k in ("max_h_over_eps", "max_h", "max_colour_excess"):
        res["maxes"][k] = stats[k]
    res["nontrivial"] = stats["nontrivial_glyphs"] > 0
    res["key"] = common.sha([sources, cfg])
    if case["i"] < 2:
        res["sample"] = {"config": cfg, "sources": [s["svg"][:600] for s in sources][:2], "codepoints": [s["codepoints"] for s in sources], "stats": stats}
    return res


def finish(agg):
    c = agg["counters"]
    inc = []
    for k in ("H1.transformed", "H2.try_reuse", "H2.reuse_hits", "gradient_layers", "groups", "transformed_layers", "H1.PaintTranslate", "H1.PaintScaleAroundCenter", "H1.PaintScaleUniformAroundCenter", "H1.PaintScale"):
        if c.get(k, 0) == 0:
            inc.append(f"deciding monitor/branch never reached: {k}")
    return {"inconclusive": inc}
