"""C10 — What the driver resolves is exactly what the build steps see."""
import io
import os
import shlex
import shutil
import traceback

from vf import common
from vf.gen import svggen

ID = "C10"
LEVEL = "exploration"
RULE = (
    "case = a chunk of generated values pushed through the real writer and back through the real reader: (a) FontConfig "
    "(every field: strings with quotes / unicode / backslashes, transform floats, optional values, 1-3 axes and masters) "
    "config.write -> config.load under every flag/file/default combination (expected: flag, else file, else default); (b) "
    "GlyphMapping.csv_line -> glyphmap.load_from for legal file names (spaces, commas, quotes, unicode); (c) codepoints."
    "from_filename(encode(seq)) in both naming schemes and both cases; (d) glyph_name injective over sequence sets and "
    "accepted by feaLib (a feature file naming every glyph is compiled); (e) ReusableParts.to_json -> from_json on parts made "
    "from generated picosvgs by the code of the write_part_file / write_combined_part_files steps; (f) response files as "
    "ninja writes them (POSIX shell quoting) through util.expand_ninja_response_files.  Non-trivial = value containing a "
    "character outside [A-Za-z0-9_./-] or a non-default optional field; distinct = the value."
)
ASSUMPTIONS = ["ninja quotes response-file content like shlex.quote (checked end-to-end on the CLI lane by C20's name matrix)", "control characters are excluded from file names (a ninja manifest cannot carry them)"]
NCASES = {"quick": 960, "thorough": 9600}

HOSTILE = [" ", ",", '"', "'", "é", "日本", "#", "$", "&", "(", ")", ";", "=", "@", "[", "]", "{", "}", "~", "+", "%", "!", "^", "`", "\\", " ", "😀", "__", "--", ".."]


def plan(tier, seed):
    return [{"id": f"{seed}-{i}", "i": i} for i in range(NCASES[tier])]


def rnd_name(r, allow_leading_space=True):
    n = r.randint(1, 4)
    parts = []
    for _ in range(n):
        k = r.random()
        if k < 0.5:
            parts.append("".join(r.choice("abcdefXYZ0123456789_-") for _ in range(r.randint(1, 6))))
        else:
            parts.append(r.choice(HOSTILE))
    s = "".join(parts)
    if not allow_leading_space:
        s = s.lstrip("  ")
    s = s.replace("/", "_").replace("\x00", "")
    if s in ("", ".", ".."):
        s = "x" + s
    return s


def rnd_string(r):
    return "".join(r.choice(["Fam", " ", '"', "'", "\\", "é", "日", "\t", "#", "=", "[", "]", "x", "1", "😀", "\\n", "{}"]) for _ in range(r.randint(1, 8)))


def run_case(case):
    import tempfile
    from pathlib import Path

    from vf.drive import inproc

    inproc.init()
    from absl import flags

    from nanoemoji import codepoints as cpmod
    from nanoemoji import config as cfgmod
    from nanoemoji import features, glyphmap
    from nanoemoji import util as nutil
    from nanoemoji.glyph import glyph_name
    from nanoemoji.parts import ReusableParts
    from picosvg.geometric_types import Rect
    from picosvg.svg import SVG
    from picosvg.svg_transform import Affine2D
    from vf.hooks import contracts

    FLAGS = flags.FLAGS
    r = common.rng(ID, case["seed"], case["i"])
    res = {"counters": {}, "violations": [], "keys": []}
    c = res["counters"]

    def bump(k, n=1):
        c[k] = c.get(k, 0) + n

    tmp = Path(tempfile.mkdtemp(prefix="c10-", dir=os.environ.get("VERIF_SCRATCH")))
    try:
        # ------------------------------------------------------------ (a) config write -> load
        FIELDS = ["family", "output_file", "color_format", "upem", "width", "ascender", "descender", "linegap", "transform", "version_major", "version_minor", "reuse_tolerance", "ignore_reuse_error", "keep_glyph_names", "clip_to_viewbox", "clipbox_quantization", "pretty_print", "fea_file", "glyphmap_generator", "bitmap_resolution", "use_zopflipng", "use_pngquant", "pngquant_flags"]

        def rnd_value(f):
            if f in ("family", "fea_file", "glyphmap_generator", "pngquant_flags"):
                return rnd_string(r)
            if f == "output_file":
                return rnd_name(r, False) + r.choice([".ttf", ".otf"])
            if f == "color_format":
                return r.choice(cfgmod._COLOR_FORMATS)
            if f in ("upem", "width", "ascender", "linegap", "version_major", "version_minor", "bitmap_resolution"):
                return r.choice([0, 1, 16, 1000, 65535, r.randint(0, 20000)])
            if f == "descender":
                return -r.choice([0, 1, 250, 30000])
            if f == "transform":
                k = r.random()
                if k < 0.3:
                    return Affine2D(1, 0, 0, 1, r.choice([0, 5, -7.25, 1e-7, 12345.678]), r.choice([0, 3, -0.001]))
                return Affine2D(*(r.choice([1, 0, -1, 0.5, 1 / 3, 1e-7, -123.456789012, 2.5e10, r.uniform(-3, 3)]) for _ in range(6)))
            if f == "reuse_tolerance":
                return r.choice([0.1, -1.0, 0.0, 1e-5, 2.5, 1 / 3])
            if f == "clipbox_quantization":
                return r.choice([None, 1, 7, 64, 1000])
            return r.random() < 0.5  # bools

        for n in range(6):
            bump("a.configs")
            values = {f: rnd_value(f) for f in FIELDS}
            naxes = r.choice([0, 1, 1, 2])
            axes = tuple(cfgmod.Axis(t, r.choice(["Weight", "Wi dth", "É"]), r.choice([0.0, 100.0, 400.0, -1.5])) for t in ["wght", "wdth"][:naxes]) or (cfgmod.Axis("wght", "Weight", 400.0),)
            nm = r.choice([1, 1, 2, 3])
            masters = []
            srcs = tuple(sorted(nutil.abspath(tmp / rnd_name(r, False)).with_suffix(".svg") for _ in range(r.randint(1, 3))))
            names = sorted({s.name for s in srcs})
            if len(names) != len(srcs):
                continue
            for mi in range(nm):
                pos = tuple(sorted(cfgmod.AxisPosition(a.axisTag, a.default if mi == 0 else r.choice([100.0, 700.0, -3.25])) for a in axes))
                mname = "m%d" % mi
                masters.append(cfgmod.MasterConfig(mname, r.choice(["Regular", "Bo ld", "É'\""]), ".".join((Path(values["output_file"]).stem, mname, "ufo")), pos, srcs))
            try:
                cfg = cfgmod.FontConfig(**values, axes=axes, masters=tuple(masters), source_names=tuple(names))
            except Exception:
                continue
            # which fields come from flags / file / neither
            how = {f: r.choice(["file", "file", "flag", "both", "default"]) for f in FIELDS}
            if cfg.clipbox_quantization is None and how["clipbox_quantization"] in ("flag", "both"):
                how["clipbox_quantization"] = "file"  # a flag cannot say "None": None *is* "flag not given"
            default = cfgmod.FontConfig()
            file_cfg = cfg
            for f in FIELDS:
                if how[f] in ("flag", "default"):
                    # the file will carry the default (i.e. the value is absent from the user's point of view)
                    file_cfg = file_cfg._replace(**{f: getattr(default, f)})
                if how[f] == "both":
                    other = rnd_value(f)
                    file_cfg = file_cfg._replace(**{f: other})
            dest = tmp / f"cfg{n}.toml"
            try:
                cfgmod.write(dest, file_cfg)
            except Exception as e:
                res["violations"].append({"what": f"config.write raised {type(e).__name__}: {e}", "config": repr(file_cfg)[:600]})
                continue
            # "default" / "flag": drop the key from the file (textually: top-level `key = value` lines before
            # the first table) so that the default / the flag must be taken
            lines = dest.read_text().split("\n")
            out, in_table = [], False
            for ln in lines:
                if ln.startswith("["):
                    in_table = True
                key = ln.split(" = ", 1)[0] if " = " in ln else None
                if not in_table and key in FIELDS and how[key] in ("default", "flag"):
                    continue
                out.append(ln)
            dest.write_text("\n".join(out))
            expected = cfg
            for f in FIELDS:
                if how[f] == "default":
                    expected = expected._replace(**{f: getattr(default, f)})
            # output_ufo of each master derives from the output file the worker resolves
            expected = expected._replace(masters=tuple(m._replace(output_ufo=".".join((Path(expected.output_file).stem, m.name, "ufo"))) for m in expected.masters))
            strings = [getattr(file_cfg, f) for f in ("family", "output_file", "fea_file", "glyphmap_generator", "pngquant_flags")] + [getattr(cfg, f) for f in ("family", "output_file", "fea_file", "glyphmap_generator", "pngquant_flags")] + [m.style_name for m in cfg.masters] + [a.name for a in cfg.axes] + [str(p) for p in srcs]
            f16 = "F16-toml-string-escaping" if any("\\x" in repr(x) or x.startswith('"') for x in strings) else None  # repr() uses a \\xNN escape, or the string holds backslash-x
            saved = {}
            try:
                for f in FIELDS:
                    if how[f] in ("flag", "both"):
                        saved[f] = getattr(FLAGS, f)
                        v = getattr(cfg, f)
                        if f == "transform":
                            v = v.tostring()
                        setattr(FLAGS, f, v)
                        bump("a.fields_by_flag")
                    elif how[f] == "file":
                        bump("a.fields_by_file")
                    else:
                        bump("a.fields_by_default")
                try:
                    back = cfgmod.load(dest)
                except Exception as e:
                    # invalid combinations are allowed to be rejected by validate() - but only for a reason validate() states
                    msg = str(e)
                    if isinstance(e, ValueError) and any(s in msg for s in ("must be", "cannot have multiple masters", "Must have")):
                        bump("a.rejected_by_validate")
                    elif isinstance(e, flags.IllegalFlagValueError):
                        bump("a.rejected_flag_value")
                    else:
                        res["violations"].append({"what": f"config.load of a written config raised {type(e).__name__}: {msg[:200]}", "how": how, "toml": dest.read_text()[:800], "mechanism": f16 if type(e).__name__ == "TomlDecodeError" else None})
                    continue
            finally:
                for f, v in saved.items():
                    setattr(FLAGS, f, v)
            diffs = contracts.config_diff(expected, back, str(tmp))
            if expected.transform != back.transform and all(abs(a - b) <= 1e-9 * max(1, abs(a)) for a, b in zip(expected.transform, back.transform)):
                diffs = [x for x in diffs if not x.startswith("transform")]  # float text round trip noise below 1e-9 relative
            if diffs:
                res["violations"].append({"mechanism": f16, "what": "configuration seen by the worker differs from the one resolved: " + "; ".join(diffs[:4]), "how": {k: v for k, v in how.items() if any(x.startswith(k) for x in diffs)}, "toml": dest.read_text()[:1000]})
            res["keys"].append("cfg:" + common.sha(repr(cfg)))

        # ------------------------------------------------------------ (b) glyph map rows
        for n in range(40):
            bump("b.rows")
            svgp = Path(r.choice(["picosvg/clipped", "picosvg", "..", "a b", ""])) / (rnd_name(r) + ".svg") if r.random() < 0.85 else None
            bmp = Path("bitmap") / (rnd_name(r) + ".png") if (svgp is None or r.random() < 0.3) else None
            if svgp is not None and str(svgp).startswith(("/",)):
                svgp = Path("x") / svgp.name
            seq = tuple(svggen.sequences(r, 1)[0]) if r.random() < 0.9 else ()
            gname = glyph_name(seq) if seq else r.choice([".notdef", "my glyph", 'q"uote', "a,b"])
            gm = glyphmap.GlyphMapping(svgp, bmp, seq, gname)
            try:
                line = gm.csv_line()
                back = glyphmap.load_from(io.StringIO(line + "\n"))
            except Exception as e:
                res["violations"].append({"what": f"glyph map row raised {type(e).__name__}: {e}", "mapping": repr(gm)})
                continue
            if len(back) != 1 or back[0] != gm:
                lead = any(str(p).startswith((" ", " ")) for p in (svgp, bmp) if p is not None) or gname.startswith(" ")
                res["violations"].append({"what": "glyph mapping does not survive the CSV round trip", "mapping": repr(gm), "line": line, "back": repr(back), "mechanism": "F7-csv-leading-space" if lead and str(back[0].svg_file).lstrip() == str(svgp).lstrip() else None})
            res["keys"].append("row:" + line)

        # ------------------------------------------------------------ (c) file names <-> sequences, (d) glyph names
        seqs = svggen.sequences(r, 60)
        names = {}
        for q in seqs:
            for scheme in range(6):
                bump("c.filenames")
                fn = inproc.filename_for(q, scheme)
                got = tuple(cpmod.from_filename(Path(fn).stem))
                if got != tuple(q):
                    res["violations"].append({"what": "codepoints recovered from a file name differ", "file": fn, "got": list(got), "want": list(q)})
            nm = glyph_name(q)
            bump("d.names")
            if nm in names and names[nm] != q:
                res["violations"].append({"what": "glyph_name is not injective", "name": nm, "a": list(names[nm]), "b": list(q)})
            names[nm] = q
            if len(nm) > 63:
                bump("d.names_longer_than_63")
            res["keys"].append("seq:" + nm)
        # hostile pairs for the naming scheme
        for q in seqs[:10]:
            for q2 in ((0x67,) + tuple(q), (0x67, 0x67) + tuple(q), (0x47,) + tuple(q)):
                n1, n2 = glyph_name(q), glyph_name(q2)
                if n1 == n2:
                    res["violations"].append({"what": "glyph_name is not injective", "name": n1, "a": list(q), "b": list(q2)})
        # legal in feature files: compile a feature file naming every glyph
        try:
            from fontTools.feaLib.builder import addOpenTypeFeaturesFromString
            from fontTools.fontBuilder import FontBuilder

            single = sorted({glyph_name(cp) for q in seqs for cp in q} | set(names))
            fb = FontBuilder(1000, isTTF=True)
            fb.setupGlyphOrder([".notdef"] + single)
            fb.setupCharacterMap({})
            fea = features.generate_fea(sorted(q for q in seqs if len(q) > 1))
            addOpenTypeFeaturesFromString(fb.font, fea)
            bump("d.fea_compiled")
            bump("d.fea_rules", sum(1 for q in seqs if len(q) > 1))
        except Exception as e:
            res["violations"].append({"what": f"generated glyph names are not accepted in a feature file: {type(e).__name__}: {str(e)[:300]}", "names": [n for n in names if len(n) > 60][:5]})

        # ------------------------------------------------------------ (e) parts files
        for n in range(2):
            bump("e.parts")
            svgs, _ = svggen.recurrence_set(r, 2, None, gradients=False)
            try:
                wh = r.choice([1200, 1000, 1024])
                tol = r.choice([0.1, 0.1, -1.0, 1.0, 0.0])
                combined = None
                files = []
                from vf.checks.c01 import has_empty_path

                normal = [inproc.picosvg_normal(t, True) for t in svgs]
                if any(has_empty_path(x) for x in normal):
                    continue  # degenerate input, see DESIGN section 4 (O1)
                for k, t in enumerate(normal):
                    parts = ReusableParts(view_box=Rect(0, 0, wh, wh), reuse_tolerance=tol)
                    parts.add(SVG.fromstring(t))
                    if r.random() < 0.5:
                        parts.compute_donors()
                    js = parts.to_json()
                    back = ReusableParts.from_json(js)
                    if back.view_box != parts.view_box or back.reuse_tolerance != parts.reuse_tolerance or back.shape_sets != parts.shape_sets:
                        res["violations"].append({"what": "parts file does not reload to the same shape sets", "json": js[:600]})
                    f = tmp / f"p{n}_{k}.json"
                    f.write_text(js)
                    files.append(f)
                # what write_combined_part_files does
                merged = ReusableParts(view_box=Rect(0, 0, wh, wh), reuse_tolerance=tol)
                for f in files:
                    merged.add(ReusableParts.loadjson(f))
                # nothing a per-source part file carried may be lost on the way into the combined file (same view box:
                # the shapes themselves must all be there)
                carried = set()
                for f in files:
                    for ss in ReusableParts.loadjson(f).shape_sets.values():
                        carried |= set(ss)
                have = set()
                for ss in merged.shape_sets.values():
                    have |= set(ss)
                bump("e.shapes_carried", len(carried))
                if carried - have:
                    res["violations"].append({"what": f"combined parts file lost {len(carried - have)} of the {len(carried)} shapes its inputs carried", "lost": [str(x)[:120] for x in list(carried - have)[:3]]})
                merged.compute_donors()
                js = merged.to_json()
                back = ReusableParts.from_json(js)
                if back.shape_sets != merged.shape_sets or {k: v for k, v in back._donor_cache.items()} != {k: v for k, v in merged._donor_cache.items()}:
                    res["violations"].append({"what": "combined parts file does not reload to the same shape sets / donors", "json": js[:600]})
                bump("e.shape_sets", len(merged.shape_sets))
            except Exception as e:
                if "picosvg" in traceback.format_exc().split("nanoemoji")[-1] and False:
                    pass
                res["violations"].append({"what": f"parts round trip raised {type(e).__name__}: {str(e)[:200]}", "trace": traceback.format_exc()[-800:]})

        # ------------------------------------------------------------ (f) response files
        for n in range(8):
            bump("f.rspfiles")
            files = ["picosvg/clipped/" + rnd_name(r) + ".svg" for _ in range(r.randint(1, 6))]
            rsp = tmp / f"r{n}.rsp"
            rsp.write_text(" ".join(shlex.quote(f) for f in files))
            try:
                got = nutil.expand_ninja_response_files(["--flag", "@" + str(rsp), "tail"])
            except Exception as e:
                res["violations"].append({"what": f"expand_ninja_response_files raised {type(e).__name__}: {e}", "files": files})
                continue
            if got != ["--flag"] + files + ["tail"]:
                res["violations"].append({"what": "response file expansion does not return the file names written", "files": files, "got": got})
    finally:
        shutil.rmtree(tmp, ignore_errors=True)
    res["nontrivial"] = True
    if case["i"] < 1:
        res["sample"] = {"file_name": rnd_name(common.rng("s", 1)), "string": rnd_string(common.rng("s", 2)), "sequence": [hex(x) for x in seqs[0]]}
    res["evaluated"] = sum(res["counters"].get(k_, 0) for k_ in ("a.configs", "b.rows", "c.filenames", "d.names", "e.parts", "f.rspfiles"))  # round trips performed
    return res


def finish(agg):
    c = agg["counters"]
    inc = []
    for k in ("a.fields_by_flag", "a.fields_by_file", "a.fields_by_default", "b.rows", "c.filenames", "d.fea_compiled", "d.names_longer_than_63", "e.shape_sets", "f.rspfiles"):
        if c.get(k, 0) == 0:
            inc.append(f"deciding monitor/branch never reached: {k}")
    return {"inconclusive": inc}
