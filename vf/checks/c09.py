"""C09 — Re-running after any edit or interruption converges to the clean build (fault enumeration)."""
import os
import shutil
import signal
import subprocess
import time
from pathlib import Path

from vf import common

ID = "C09"
LEVEL = "fault_enumeration"
RULE = (
    "(a) single-fault enumeration: for a fixed 3-source build in a colour format, every edge of the ninja graph x {step exits "
    "non-zero, step killed after leaving a truncated output} + driver killed {right after the config write, after the k-th "
    "build statement for every k} + whole process group SIGKILLed mid-build; each fault is injected both into a first build "
    "and into an incremental rebuild (after a successful build and an edit that advances mtime); then one fault-free "
    "invocation; the font must equal the clean build of the final inputs and every invocation whose event log shows a fired "
    "fault must exit non-zero.  (b) random histories of 3-6 steps over {add, modify, rename, remove source; change colour "
    "format, metrics, reuse_tolerance, clip_to_viewbox, bitmap_resolution, pngquant flags} interleaved with faults, judged "
    "the same way.  (c) fault-free edit enumeration: on a directory holding a successful 4-source build (one source is a "
    "many-colour image whose quantisation pngquant declines) every source is edited in turn / every listed option changed, "
    "rebuilt, and compared with the clean build.  Non-trivial = case whose fault actually fired (event log) or history with >= 1 edit; distinct = the "
    "fault point / the history."
)
ASSUMPTIONS = ["edits advance mtime (ninja's own contract)", "faults where a step exits 0 after writing garbage are outside the stated fault set", "bytes are comparable across build directories (C08)"]
TIMEOUT = {"quick": 1500, "thorough": 6 * 3600}
CASE_TIMEOUT = 1200
NHIST = {"quick": 16, "thorough": 160}

SRC = {
    "emoji_u1f600.svg": '<svg xmlns="http://www.w3.org/2000/svg" viewBox="0 0 100 100"><rect x="10" y="10" width="60" height="40" fill="#cc3300"/><circle cx="60" cy="60" r="25" fill="blue" opacity="0.5"/></svg>',
    "emoji_u1f601_200d_1f3fb.svg": '<svg xmlns="http://www.w3.org/2000/svg" viewBox="0 0 100 100"><defs><linearGradient id="g" x1="0" y1="0" x2="1" y2="1"><stop offset="0" stop-color="gold"/><stop offset="1" stop-color="green"/></linearGradient></defs><rect x="20" y="20" width="60" height="40" fill="url(#g)"/></svg>',
    "emoji_u41.svg": '<svg xmlns="http://www.w3.org/2000/svg" viewBox="0 0 100 100"><rect x="30" y="35" width="60" height="40" fill="#008844"/><path d="M10,90 L50,60 L90,90 Z" fill="#112233"/></svg>',
}
ALT = '<svg xmlns="http://www.w3.org/2000/svg" viewBox="0 0 100 100"><rect x="5" y="5" width="50" height="70" fill="#aa00aa"/><rect x="30" y="35" width="60" height="40" fill="#008844"/></svg>'
EXTRA = ("emoji_u1f602.svg", '<svg xmlns="http://www.w3.org/2000/svg" viewBox="0 0 100 100"><circle cx="50" cy="50" r="40" fill="#ffcc00"/><rect x="10" y="10" width="60" height="40" fill="#cc3300"/></svg>')
RAINBOW = (
    "emoji_u1f308.svg",
    '<svg xmlns="http://www.w3.org/2000/svg" viewBox="0 0 100 100"><defs><linearGradient id="a" x1="0" y1="0" x2="1" y2="0"><stop offset="0" stop-color="#ff0000"/><stop offset="0.17" stop-color="#ff9900"/><stop offset="0.33" stop-color="#ffff00"/><stop offset="0.5" stop-color="#00cc00"/><stop offset="0.67" stop-color="#0066ff"/><stop offset="0.83" stop-color="#6600cc"/><stop offset="1" stop-color="#ff00aa"/></linearGradient><radialGradient id="b" cx="0.5" cy="0.5" r="0.6"><stop offset="0" stop-color="#ffffff" stop-opacity="0.9"/><stop offset="0.5" stop-color="#00ffff" stop-opacity="0.4"/><stop offset="1" stop-color="#000000" stop-opacity="0.7"/></radialGradient></defs><rect x="2" y="2" width="96" height="96" fill="url(#a)"/><rect x="2" y="2" width="96" height="96" fill="url(#b)"/></svg>',
)  # many colours: pngquant declines it (exit 98/99) at the default quality floor, the wrapper then copies the input
RAINBOW_ALT = RAINBOW[1].replace('x2="1" y2="0"', 'x2="0" y2="1"').replace('r="0.6"', 'r="0.45"')
EDIT_FORMATS = {"quick": ["cbdt", "sbix", "glyf_colr_1", "picosvg"], "thorough": ["cbdt", "sbix", "glyf_colr_1", "glyf_colr_0", "picosvg", "untouchedsvg", "glyf", "cff2_colr_1"]}
EDIT_OPTIONS = [("pngquant_flags", "--quality 100"), ("pngquant_flags", "--speed 10 --quality 30-50"), ("bitmap_resolution", 48), ("use_pngquant", False), ("use_zopflipng", False), ("clip_to_viewbox", False), ("reuse_tolerance", -1), ("ascender", 900), ("keep_glyph_names", True)]


def edges(fmt, names):
    out = []
    stems = [n[:-4] for n in names]
    if fmt in ("cbdt", "sbix"):
        for s in stems:
            # "pngquant" is the binary the nanoemoji.pngquant wrapper step spawns: it can die while its parent lives on
            out += [("resvg", s + ".png"), ("nanoemoji.pngquant", s + ".png"), ("pngquant", s + ".png"), ("zopfli.png", s + ".png")]
    else:
        for s in stems:
            out.append(("picosvg", s + ".svg"))
            out.append(("nanoemoji.write_part_file", s + ".parts.json"))
    out += [("nanoemoji.write_combined_part_files", "parts-merged.json"), ("nanoemoji.write_glyphmap", "Font.glyphmap"), ("nanoemoji.write_fea", "Font.fea"), ("nanoemoji.write_font", "Font.toml")]
    return out


def plan(tier, seed):
    cases = []
    fmts = ["glyf_colr_1"] if tier == "quick" else ["glyf_colr_1", "picosvg", "cbdt"]
    names = sorted(SRC)
    for fmt in fmts:
        es = edges(fmt, names)
        nbuild = len(es)
        for phase in ("first", "incremental"):
            for step, out in es:
                for mode in ("fail", "kill_truncate"):
                    cases.append({"id": f"{fmt}-{phase}-{step.split('.')[-1]}-{out}-{mode}", "kind": "fault", "fmt": fmt, "phase": phase, "fault": f"{step}|{out}|{mode}"})
            cases.append({"id": f"{fmt}-{phase}-driver-after_config_write", "kind": "fault", "fmt": fmt, "phase": phase, "driver_fault": "after_config_write"})
            for k in range(1, nbuild + 1):
                cases.append({"id": f"{fmt}-{phase}-driver-after_build-{k}", "kind": "fault", "fmt": fmt, "phase": phase, "driver_fault": f"after_build:{k}"})
            for k in (2, 5, 8):
                cases.append({"id": f"{fmt}-{phase}-groupkill-{k}", "kind": "fault", "fmt": fmt, "phase": phase, "groupkill": k})
    if tier == "quick":
        # a sample of the other formats' graphs
        for fmt in ("picosvg", "cbdt"):
            es = edges(fmt, names)
            r = common.rng(ID, "sample", seed, fmt)
            for step, out in r.sample(es, 4):
                cases.append({"id": f"{fmt}-incremental-{step.split('.')[-1]}-{out}-kill_truncate", "kind": "fault", "fmt": fmt, "phase": "incremental", "fault": f"{step}|{out}|kill_truncate"})
    # fault-free edit enumeration: every source edited in turn / every option changed, on a build directory that
    # already holds a successful build (incl. a source whose quantisation is declined)
    for fmt in EDIT_FORMATS[tier]:
        for n in sorted(SRC) + [RAINBOW[0]]:
            cases.append({"id": f"{fmt}-edit-{n}", "kind": "edit", "fmt": fmt, "edit": n})
        for k, (opt, val) in enumerate(EDIT_OPTIONS):
            if tier == "thorough" or fmt in ("cbdt", "sbix") or k >= 5:
                cases.append({"id": f"{fmt}-option-{opt}-{k}", "kind": "edit", "fmt": fmt, "option": [opt, val]})
    if tier == "quick":
        # the spawned pngquant binary dying under its (surviving) wrapper step: always enumerated
        for phase in ("first", "incremental"):
            for mode in ("fail", "kill_truncate"):
                cases.append({"id": f"cbdt-{phase}-pngquant-binary-emoji_u41.png-{mode}", "kind": "fault", "fmt": "cbdt", "phase": phase, "fault": f"pngquant|emoji_u41.png|{mode}"})
                # ... and the last step of the bitmap chain (its output is what the font embeds)
                cases.append({"id": f"cbdt-{phase}-zopfli-emoji_u1f600.png-{mode}", "kind": "fault", "fmt": "cbdt", "phase": phase, "fault": f"zopfli.png|emoji_u1f600.png|{mode}"})
    cases += [{"id": f"vf-{op}", "kind": "vf-edit", "op": op} for op in VF_OPS]
    cases += [{"id": f"{seed}-hist{i}", "kind": "history", "i": i} for i in range(NHIST[tier])]
    return cases


class World:
    def __init__(self, root, fmt):
        from vf.drive import cli

        self.cli = cli
        self.root = Path(root)
        self.src = self.root / "src"
        self.src.mkdir(parents=True)
        self.sources = {}
        self.opts = {"color_format": fmt}
        self.clock = int(time.time()) - 10000
        self.n = 0

    def write(self, name, text):
        p = self.src / name
        time.sleep(0.02)  # the edit must carry a later mtime than anything the previous invocation wrote
        p.write_text(text)
        self.sources[name] = text

    def remove(self, name):
        (self.src / name).unlink()
        del self.sources[name]

    def flags(self):
        f = ["--output_file", "Font.ttf"]
        for k, v in self.opts.items():
            if isinstance(v, bool):
                f.append(f"--{k}" if v else f"--no{k}")
            else:
                f += [f"--{k}", str(v)]
        return f

    def invoke(self, bdir, fault=None, driver_fault=None, groupkill=None):
        """-> dict(rc, fired, out)"""
        cli = self.cli
        self.n += 1
        ev = self.root / f"ev{self.n}.jsonl"
        env = cli.env_for(events=ev, fault=fault, driver_fault=driver_fault, ninja_j=4)
        args = self.flags() + ["--build_dir", str(bdir)] + sorted(self.sources)
        if groupkill is None:
            rc, out = cli.nanoemoji(args, self.src, env, timeout=300)
        else:
            p = subprocess.Popen(["/venv/bin/nanoemoji"] + args, cwd=str(self.src), env=env, stdout=subprocess.PIPE, stderr=subprocess.STDOUT, start_new_session=True)
            deadline = time.time() + 120
            fired = False
            while time.time() < deadline and p.poll() is None:
                starts = [e for e in cli.events(ev) if e["kind"] == "step_start" and e["step"] not in ("nanoemoji", "ninja")]
                if len(starts) >= groupkill:
                    try:
                        os.killpg(p.pid, signal.SIGKILL)
                        fired = True
                    except ProcessLookupError:
                        pass
                    break
                time.sleep(0.01)
            try:
                p.wait(timeout=60)
            except subprocess.TimeoutExpired:
                os.killpg(p.pid, signal.SIGKILL)
                p.wait()
            rc, out = p.returncode, ""
            return {"rc": rc, "fired": fired, "out": out, "events": len(cli.events(ev))}
        evs = cli.events(ev)
        fired = any(e["kind"] == "fault" for e in evs)
        return {"rc": rc, "fired": fired, "out": out, "events": len(evs)}

    def clean_sha(self):
        d = self.root / f"clean{self.n}"
        r = self.invoke(d)
        sha = self.cli.sha256(d / "Font.ttf")
        shutil.rmtree(d, ignore_errors=True)
        return r["rc"], sha, r["out"]


def run_fault(case):
    from vf.drive import cli

    res = {"counters": {}, "violations": [], "tags": [case["fmt"], case["phase"]]}
    c = res["counters"]
    root = common.mkscratch("c09-")
    try:
        w = World(root, case["fmt"])
        if case["fmt"] in ("cbdt", "sbix"):
            w.opts["bitmap_resolution"] = 32
        for n, t in SRC.items():
            w.write(n, t)
        b = root / "build"
        history = []
        if case["phase"] == "incremental":
            r0 = w.invoke(b)
            history.append(("build", r0["rc"]))
            if r0["rc"] != 0:
                res["error"] = "setup build failed: " + r0["out"][-500:]
                return res
            # edit (content + mtime) the source the fault point belongs to, so that its edges run again
            target = "emoji_u41.svg"
            for n in SRC:
                if n[:-4] in (case.get("fault") or ""):
                    target = n
            w.write(target, ALT)
            history.append((f"modify {target}", None))
        r1 = w.invoke(b, fault=case.get("fault"), driver_fault=case.get("driver_fault"), groupkill=case.get("groupkill"))
        history.append(("faulty invocation", r1["rc"], "fired" if r1["fired"] else "not fired"))
        c["fault_points"] = 1
        if r1["fired"]:
            c["faults_fired"] = 1
            res["tags"].append("fired")
            if r1["rc"] == 0:
                res["violations"].append({"what": "a step failed / was killed (event log) but the invocation exited 0", "fault": case, "history": history, "output": r1["out"][-800:]})
        else:
            res["tags"].append("not-fired")
            if r1["rc"] not in (0,):
                # the fault point does not exist in this graph / was not reached and the build failed for another reason
                c["unfired_nonzero"] = 1
        r2 = w.invoke(b)
        history.append(("fault-free invocation", r2["rc"]))
        final = cli.sha256(b / "Font.ttf")
        crc, clean, cout = w.clean_sha()
        if crc != 0:
            res["error"] = "clean reference build failed: " + cout[-500:]
            return res
        if r2["rc"] != 0:
            res["violations"].append({"what": f"the fault-free invocation after the fault exits {r2['rc']}: the build directory does not recover", "fault": case, "history": history, "output": r2["out"][:2500]})
        elif final != clean:
            res["violations"].append({"what": "font after recovery differs from the clean build of the same inputs", "fault": case, "history": history, "final": final, "clean": clean})
        res["nontrivial"] = bool(r1["fired"])
        res["key"] = case["id"]
        if case["id"].endswith("write_font-Font.toml-kill_truncate"):
            res["sample"] = {"fault": case.get("fault"), "phase": case["phase"], "history": history}
    finally:
        shutil.rmtree(root, ignore_errors=True)
    return res


def run_edit(case):
    from vf.drive import cli

    fmt = case["fmt"]
    res = {"counters": {}, "violations": [], "tags": [fmt, "edit"]}
    c = res["counters"]
    root = common.mkscratch("c09e-")
    try:
        w = World(root, fmt)
        if fmt in ("cbdt", "sbix"):
            w.opts["bitmap_resolution"] = 64
        for n, t in list(SRC.items()) + [RAINBOW]:
            w.write(n, t)
        b = root / "build"
        r0 = w.invoke(b)
        hist = [("build", r0["rc"])]
        if r0["rc"] != 0:
            res["error"] = "setup build failed: " + r0["out"][-500:]
            return res
        if "Reuse bitmap/" in r0["out"]:
            c["quantisation_declined_in_first_build"] = 1
        before = cli.sha256(b / "Font.ttf")
        if "edit" in case:
            n = case["edit"]
            w.write(n, RAINBOW_ALT if n == RAINBOW[0] else ALT)
            hist.append((f"modify {n}", None))
        else:
            k, v = case["option"]
            w.opts[k] = v
            hist.append((f"option {k}={v}", None))
        r1 = w.invoke(b)
        hist.append(("rebuild", r1["rc"]))
        c["edit_rebuilds"] = 1
        if "Reuse bitmap/" in r1["out"]:
            c["quantisation_declined_in_rebuild"] = 1
        final = cli.sha256(b / "Font.ttf")
        crc, clean, cout = w.clean_sha()
        if crc != 0:
            c["final_inputs_unbuildable"] = 1
            if r1["rc"] == 0:
                res["violations"].append({"what": "clean build of the final inputs fails but the incremental invocation succeeded", "history": hist, "clean_output": cout[:1500]})
        elif r1["rc"] != 0:
            res["violations"].append({"what": f"rebuild after an edit exits {r1['rc']} although the same inputs build cleanly", "history": hist, "output": r1["out"][:2500]})
        elif final != clean:
            res["violations"].append({"what": "font after an edit and a rebuild differs from the clean build of the final inputs", "history": hist, "case": case, "unchanged_by_rebuild": final == before})
        if final != before:
            c["edits_that_changed_the_font"] = 1
        res["nontrivial"] = True
        res["key"] = case["id"]
        if case["id"].endswith("cbdt-edit-" + RAINBOW[0]):
            res["sample"] = {"history": hist, "font_changed": final != before}
    finally:
        shutil.rmtree(root, ignore_errors=True)
    return res


def run_history(case):
    from vf.drive import cli

    r = common.rng(ID, "hist", case["seed"], case["i"])
    fmt = r.choice(["glyf_colr_1", "glyf_colr_1", "picosvg", "cbdt", "glyf_colr_0"])
    res = {"counters": {}, "violations": [], "tags": ["history", fmt]}
    c = res["counters"]
    root = common.mkscratch("c09h-")
    try:
        w = World(root, fmt)
        if fmt == "cbdt":
            w.opts["bitmap_resolution"] = 32
        for n, t in SRC.items():
            w.write(n, t)
        b = root / "build"
        hist = []
        r0 = w.invoke(b)
        hist.append(("build", r0["rc"]))
        nsteps = r.randint(3, 6)
        for s in range(nsteps):
            op = r.choice(["add", "modify", "rename", "remove", "option", "option", "fault-only"])
            if op == "add" and EXTRA[0] not in w.sources:
                w.write(*EXTRA)
            elif op == "modify":
                n = r.choice(sorted(w.sources))
                w.write(n, ALT if w.sources[n] != ALT else SRC.get(n, EXTRA[1]))
            elif op == "rename" and len(w.sources) >= 2:
                n = r.choice(sorted(w.sources))
                new = "emoji_u%x.svg" % r.randint(0x1F610, 0x1F64F)
                t = w.sources[n]
                w.remove(n)
                w.write(new, t)
                op = f"rename {n}->{new}"
            elif op == "remove" and len(w.sources) >= 3:
                w.remove(r.choice(sorted(w.sources)))
            elif op == "option":
                k = r.choice(["color_format", "upem", "ascender", "reuse_tolerance", "clip_to_viewbox", "bitmap_resolution", "pngquant_flags", "width", "keep_glyph_names"])
                if k == "color_format":
                    w.opts[k] = r.choice(["glyf_colr_1", "picosvg", "cbdt", "glyf_colr_0", "glyf", "untouchedsvg", "sbix"])
                    if w.opts[k] in ("cbdt", "sbix"):
                        w.opts.setdefault("bitmap_resolution", 32)
                elif k == "upem":
                    w.opts[k] = r.choice([1000, 1024, 2048])
                elif k == "ascender":
                    w.opts[k] = r.choice([800, 950, 900])
                elif k == "reuse_tolerance":
                    w.opts[k] = r.choice([0.1, -1, 1.0])
                elif k == "bitmap_resolution":
                    w.opts[k] = r.choice([32, 64, 48])
                elif k == "pngquant_flags":
                    w.opts[k] = r.choice(["--speed 1 --skip-if-larger --quality 85-95", "--speed 10 --quality 40-60", "--speed 3"])
                elif k == "width":
                    w.opts[k] = r.choice([0, 1000, 1275])
                else:
                    w.opts[k] = r.random() < 0.5
                op = f"option {k}={w.opts[k]}"
            fault = None
            dfault = None
            gk = None
            fk = r.random()
            if fk < 0.45:
                es = edges(w.opts["color_format"], sorted(w.sources))
                st, out = r.choice(es)
                fault = f"{st}|{out}|{r.choice(['fail', 'kill_truncate'])}"
            elif fk < 0.6:
                dfault = r.choice(["after_config_write", f"after_build:{r.randint(1, 8)}"])
            elif fk < 0.7:
                gk = r.randint(1, 8)
            ri = w.invoke(b, fault=fault, driver_fault=dfault, groupkill=gk)
            hist.append((op, fault or dfault or (f"groupkill:{gk}" if gk else None), ri["rc"], "fired" if ri["fired"] else ""))
            c["invocations"] = c.get("invocations", 0) + 1
            if ri["fired"]:
                c["faults_fired"] = c.get("faults_fired", 0) + 1
                if ri["rc"] == 0:
                    res["violations"].append({"what": "a step failed / was killed (event log) but the invocation exited 0", "history": hist, "output": ri["out"][-600:]})
        rf = w.invoke(b)
        hist.append(("final fault-free invocation", rf["rc"]))
        final = cli.sha256(b / "Font.ttf")
        crc, clean, cout = w.clean_sha()
        if crc != 0:
            # the final inputs themselves do not build (e.g. palette conflict): then the incremental one must fail too
            c["final_inputs_unbuildable"] = 1
            if rf["rc"] == 0:
                res["violations"].append({"what": "clean build of the final inputs fails but the incremental invocation succeeded", "history": hist, "clean_output": cout[:1500]})
        elif rf["rc"] != 0:
            res["violations"].append({"what": f"final fault-free invocation exits {rf['rc']} although the same inputs build cleanly: the build directory does not recover", "history": hist, "options": w.opts, "sources": sorted(w.sources), "output": rf["out"][:2500]})
        elif final != clean:
            res["violations"].append({"what": "font after the history differs from the clean build of the final inputs", "history": hist, "options": w.opts, "sources": sorted(w.sources)})
        c["histories"] = 1
        res["nontrivial"] = True
        res["key"] = common.sha(hist)
        if case["i"] < 2:
            res["sample"] = {"history": hist, "final_options": w.opts}
    finally:
        shutil.rmtree(root, ignore_errors=True)
    return res


VF_OPS = ["remove", "rename", "modify-one-master", "add", "remove-then-add-back"]


def vf_svg(m, k):
    # master m (0 thin, 1 bold) of glyph k: same structure, other coordinates
    w = 20 + 25 * m
    return f'<svg xmlns="http://www.w3.org/2000/svg" viewBox="0 0 100 100"><rect x="{10 + 5 * k}" y="{10 + 3 * k}" width="{w}" height="{40 + 10 * m}" fill="#cc3300"/><path d="M{50 - w // 2},90 L50,{60 - 10 * m} L{50 + w // 2},90 Z" fill="#1122{33 + 11 * k}"/></svg>'


def run_vf_edit(case):
    """a multi-master (variable font) configuration on a re-used build directory: its intermediates are master UFOs,
    not just files ninja tracks one by one"""
    from vf.drive import cli

    res = {"counters": {}, "violations": [], "tags": ["vf-edit", case["op"]]}
    c = res["counters"]
    root = common.mkscratch("c09v-")
    try:
        names = {0: "emoji_u1f600.svg", 1: "emoji_u1f601.svg", 2: "emoji_u42.svg"}
        for m, mname in enumerate(("thin", "bold")):
            (root / mname).mkdir()
            for k, n in names.items():
                (root / mname / n).write_text(vf_svg(m, k))
        (root / "vf.toml").write_text(
            'output_file = "VF.ttf"\ncolor_format = "glyf_colr_1"\nkeep_glyph_names = true\nreuse_tolerance = -1\n[axis.wght]\nname = "Weight"\ndefault = 400\n'
            '[master.thin]\nstyle_name = "Thin"\nsrcs = ["thin/*.svg"]\n[master.thin.position]\nwght = 400\n'
            '[master.bold]\nstyle_name = "Bold"\nsrcs = ["bold/*.svg"]\n[master.bold.position]\nwght = 700\n'
        )
        n_ev = [0]

        def invoke(bdir):
            n_ev[0] += 1
            return cli.nanoemoji(["--build_dir", str(bdir), "vf.toml"], root, cli.env_for(events=root / f"ev{n_ev[0]}.jsonl", ninja_j=4), timeout=600)

        b = root / "build"
        rc0, out0 = invoke(b)
        hist = [("build", rc0)]
        if rc0 != 0:
            res["error"] = "setup build failed: " + out0[-500:]
            return res
        before = cli.sha256(b / "VF.ttf")
        time.sleep(0.02)
        op = case["op"]
        steps = [op] if op != "remove-then-add-back" else ["remove", "add-back"]
        for st in steps:
            for m, mname in enumerate(("thin", "bold")):
                d = root / mname
                if st == "remove":
                    (d / names[2]).unlink()
                elif st == "add-back":
                    (d / names[2]).write_text(vf_svg(m, 2))
                elif st == "rename":
                    (d / names[1]).rename(d / "emoji_u1f605.svg")
                elif st == "add":
                    (d / "emoji_u43.svg").write_text(vf_svg(m, 3))
                elif st == "modify-one-master" and m == 1:
                    (d / names[0]).write_text(vf_svg(m, 0).replace('height="50"', 'height="35"'))
            hist.append((st, None))
            rc1, out1 = invoke(b)
            hist.append(("rebuild", rc1))
            time.sleep(0.02)
        c["vf_edit_rebuilds"] = 1
        final = cli.sha256(b / "VF.ttf")
        clean_dir = root / "clean"
        crc, cout = invoke(clean_dir)
        clean = cli.sha256(clean_dir / "VF.ttf")
        if crc != 0:
            res["error"] = "clean build of the final inputs failed: " + cout[-500:]
        elif rc1 != 0:
            res["violations"].append({"what": f"rebuild of a variable font after '{op}' exits {rc1} although the same inputs build cleanly", "history": hist, "output": out1[:2500]})
        elif final != clean:
            from fontTools.ttLib import TTFont

            go = (TTFont(str(b / "VF.ttf")).getGlyphOrder(), TTFont(str(clean_dir / "VF.ttf")).getGlyphOrder())
            res["violations"].append({"what": "variable font after an edit and a rebuild differs from the clean build of the final inputs", "history": hist, "glyph_order_rebuilt": go[0], "glyph_order_clean": go[1]})
        if final != before:
            c["vf_edits_that_changed_the_font"] = 1
        res["nontrivial"] = True
        res["key"] = case["id"]
    finally:
        shutil.rmtree(root, ignore_errors=True)
    return res


def run_case(case):
    return {"fault": run_fault, "edit": run_edit, "history": run_history, "vf-edit": run_vf_edit}[case["kind"]](case)


def finish(agg):
    c = agg["counters"]
    t = agg["tags"]
    inc = []
    pts = c.get("fault_points", 0)
    fired = t.get("fired", 0)
    if pts and fired < pts * 0.8:
        inc.append(f"only {fired} of {pts} enumerated fault points fired")
    if c.get("histories", 0) == 0:
        inc.append("no history ran")
    for k in ("edit_rebuilds", "edits_that_changed_the_font", "quantisation_declined_in_rebuild", "vf_edit_rebuilds", "vf_edits_that_changed_the_font"):
        if c.get(k, 0) == 0:
            inc.append(f"deciding branch never reached: {k}")
    notfired = sorted(r["id"] for r in agg["results"] if "not-fired" in (r.get("tags") or []))
    return {"inconclusive": inc, "coverage": {"fault_points_enumerated": pts, "fault_points_fired": fired, "fault_points_not_fired": notfired[:40], "histories": c.get("histories", 0), "edit_rebuilds": c.get("edit_rebuilds", 0), "edits_that_changed_the_font": c.get("edits_that_changed_the_font", 0), "rebuilds_where_quantisation_was_declined": c.get("quantisation_declined_in_rebuild", 0), "history_invocations": c.get("invocations", 0), "history_faults_fired": c.get("faults_fired", 0) - fired, "exhaustive": False}}
