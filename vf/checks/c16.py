"""C16 — Specialised transform paints denote exactly the affine they replace."""
import math
import traceback
from types import SimpleNamespace

from vf import common

ID = "C16"
LEVEL = "exploration"
RULE = (
    "case = a chunk of generated affines / gradients.  (A) paint.transformed(T, target): the wrappers are compiled into a real "
    "COLR table (colorLib.buildCOLR + compile + decompile) and the composition of the decompiled paints (my matrices and "
    "fontTools' getTransform) must equal T on the corners of a 4096-unit box within what half a quantum of each emitted field "
    "explains; out-of-range values must end in a wider encoding or an exception, never a wrapped / clamped field.  (B) "
    "PaintLinear/RadialGradient.apply_transform: gradient parameter t preserved at probe points, geometry that leaves int16 / "
    "uint16 must raise.  (C) _decompose_uniform_transform: uniform part is uniform, parts recompose.  (D) Paint.from_ot(...)."
    "gettransform() for every non-variable transform format vs the spec matrix.  (E) svg._apply_paint on a gradient under 1-3 "
    "nested transform paints plus an incoming (reuse) transform: the <linearGradient>/<radialGradient> it writes, read by the "
    "independent SVG evaluator, gives the paint tree's colour parameter at corresponding viewBox points.  (F) real builds in "
    "which a copy 40-80x smaller than its donor carries a gradient that overflows int16 when mapped into the donor's space "
    "(the encoder's OverflowError fallback): the compiled paint graph must still paint the source's colours.  Generators are boundary-targeted (near-"
    "integer translations, scales at +-2 and 32767/16384, (1==sx)!=(0==dx), centres at int16 limits, shear, near-singular, "
    "beyond Fixed).  Non-trivial = affine that is not a plain in-range PaintTransform case; distinct = the affine itself."
)
ASSUMPTIONS = ["fontTools colorLib/otTables compile+decompile is the encoder whose field quanta are modelled (F2Dot14 2^-14, Fixed 2^-16, FWORD 1)"]
NCASES = {"quick": 96, "thorough": 1600}
PER = 320


def plan(tier, seed):
    return [{"id": f"{seed}-{i}", "i": i} for i in range(NCASES[tier])] + [{"id": "repo-tests-under-contracts", "kind": "repo-tests", "timeout": 1200}]


def run_repo_tests(case):
    """The repository's own test suite with all runtime contracts (H1-H9) switched on."""
    import json
    import os
    import subprocess
    import tempfile

    res = {"counters": {}, "violations": [], "tags": ["repo-tests"]}
    with tempfile.TemporaryDirectory() as d:
        rep = os.path.join(d, "contracts.json")
        env = dict(os.environ, VERIF_CONTRACT_REPORT=rep, PYTHONPATH=os.pathsep.join([str(common.REPO / "src"), str(common.VERIF), str(common.DEPS)]))
        # run from a scratch copy of tests/: some tests leave files in the working directory
        import shutil

        shutil.copytree(str(common.REPO / "tests"), os.path.join(d, "tests"))
        p = subprocess.run([common.PY, "-m", "pytest", "-q", "-p", "no:cacheprovider", "-p", "vf.hooks.pytest_plugin", "--timeout=900", "-x", "--deselect", "tests/nanoemoji_test.py", "--deselect", "tests/maximum_color_test.py", "tests"], cwd=d, env=env, capture_output=True, text=True, timeout=1100)
        try:
            data = json.load(open(rep))
        except Exception:
            res["counters"]["repo_tests_report_missing"] = 1
            return res
    for k, v in data["counters"].items():
        res["counters"]["repo_tests." + k] = v
    for v in data["violations"]:
        v["what"] = "while running the repository's own tests: " + v["what"]
        res["violations"].append(v)
    res["counters"]["repo_tests_ran"] = 1
    res["nontrivial"] = True
    res["key"] = "repo-tests"
    return res


def gen_affine(r):
    """(tag, (a,b,c,d,e,f))"""
    k = r.random()
    near = lambda v: v + r.choice([0, 0, 1e-12, -1e-12, 1e-10, 1e-9, -1e-9, 1.1e-9, 1e-7, 1e-4, 0.4999, 0.5, -0.5])
    if k < 0.16:  # translations around the int16 test
        return "translate", (1, 0, 0, 1, near(r.choice([0, 1, -1, 5, 100, 32767, -32768, 32768, -32769, 40000, r.randint(-33000, 33000)])), near(r.choice([0, 0, 7, -300, 32767, -32768, r.randint(-33000, 33000)])))
    if k < 0.32:  # pure scale around F2Dot14 limits
        sv = [1, -1, 0.5, 2, -2, 1.999938964844, 1.99993896484375, 1.9999389648437502, 2.0000001, -2.0000001, 32767 / 16384, 1 + 2 ** -14, 1 + 2 ** -15, 1e-5, 3, 100, r.uniform(-2.2, 2.2)]
        sx = near(r.choice(sv)) if r.random() < 0.3 else r.choice(sv)
        sy = sx if r.random() < 0.35 else r.choice(sv)
        if r.random() < 0.2:
            sy = sx + r.choice([1e-12, 1e-10, 1e-9, 2e-9, 1e-6])
        return "scale", (sx, 0, 0, sy, 0, 0)
    if k < 0.55:  # scale + translate: centre arithmetic
        sx = r.choice([1, 1, 0.5, -1, 2, 1.5, 0.25, 1 + 1e-10, 1 - 1e-9, 1.0001, r.uniform(-2, 2)])
        sy = r.choice([sx, sx, 1, 0.5, -1, 1.25, r.uniform(-2, 2)])
        cx = r.choice([0, 10, -10, 500, 32767, -32768, 32768, 16000, 0.5, 1 / 3, r.randint(-40000, 40000)])
        cy = r.choice([0, 20, -500, 32767, -32768, 0.25, r.randint(-40000, 40000)])
        dx = (1 - sx) * cx
        dy = (1 - sy) * cy
        if r.random() < 0.25:  # (1==sx) != (0==dx)
            if sx == 1:
                dx = r.choice([3, -7.5, 1e-9])
            else:
                dx = 0
        if r.random() < 0.15:
            dy = dy + r.choice([1e-9, 1e-6, 0.3])
        return "scale-translate", (sx, 0, 0, sy, dx, dy)
    if k < 0.7:  # rotation / shear
        a = r.choice([math.pi / 2, math.pi, 0.1, -0.7, r.uniform(-3.14, 3.14)])
        s = r.choice([1, 1, 0.5, 2, 30])
        return "rotate", (s * math.cos(a), s * math.sin(a), -s * math.sin(a), s * math.cos(a), r.choice([0, 0, 12.5, -3000]), r.choice([0, 0, 8, 700.25]))
    if k < 0.8:
        return "shear", (1, r.uniform(-1, 1), r.uniform(-1, 1), 1, r.choice([0, 33]), r.choice([0, -2.5]))
    if k < 0.9:  # near singular / tiny
        e = r.choice([1e-3, 1e-6, 1e-9, 2 ** -16, 2 ** -17])
        return "near-singular", (1, 1, 1, 1 + e, r.uniform(-5, 5), 0)
    # beyond Fixed 16.16
    big = r.choice([32767.99998, 32768, -32768, -32768.5, 40000, 1e6, -1e5, 32767.999992370605, 32767.99999])
    pos = r.randint(0, 5)
    m = [r.uniform(0.5, 1.5), r.uniform(-0.3, 0.3), r.uniform(-0.3, 0.3), r.uniform(0.5, 1.5), r.uniform(-50, 50), r.uniform(-50, 50)]
    m[pos] = big
    return "beyond-fixed", tuple(m)


def aff(t):
    import numpy as np

    return np.array([[t[0], t[2], t[4]], [t[1], t[3], t[5]], [0, 0, 1.0]])


BOX = [(-2048, -2048), (2048, -2048), (2048, 2048), (-2048, 2048), (0, 0), (1000, 250)]


def ns_of(p):
    """SimpleNamespace copy of a decompiled transform paint (so fields can be perturbed)."""
    d = {"Format": int(p.Format)}
    for k in ("dx", "dy", "scaleX", "scaleY", "scale", "centerX", "centerY", "angle", "xSkewAngle", "ySkewAngle"):
        if hasattr(p, k):
            d[k] = getattr(p, k)
    if hasattr(p, "Transform"):
        t = p.Transform
        d["Transform"] = SimpleNamespace(xx=t.xx, yx=t.yx, xy=t.xy, yy=t.yy, dx=t.dx, dy=t.dy)
    return SimpleNamespace(**d)


# Integer (FWORD) fields may only be chosen when they are exact - a general matrix in Fixed 16.16 is always
# available - so they get no rounding allowance beyond float noise; F2Dot14 / Fixed fields get half a quantum.
QUANTA = {"dx": 4e-6, "dy": 4e-6, "centerX": 4e-6, "centerY": 4e-6, "scaleX": 2 ** -14, "scaleY": 2 ** -14, "scale": 2 ** -14, "angle": 180 * 2 ** -14, "xSkewAngle": 180 * 2 ** -14, "ySkewAngle": 180 * 2 ** -14}


def chain_matrix_and_allowance(chain, vc):
    """composition of a list of namespace paints (outer first) and, per BOX point, what half a quantum in each field explains."""
    import numpy as np

    from vf.oracle import colreval

    def comp(ch):
        M = np.eye(3)
        for p in ch:
            M = M @ colreval._xf(p, vc)[0]
        return M

    M = comp(chain)
    pts = np.array([[x, y, 1.0] for x, y in BOX]).T
    base = M @ pts
    allow = np.zeros(len(BOX))
    for i, p in enumerate(chain):
        fields = []
        if int(p.Format) == 12:
            for k in ("xx", "yx", "xy", "yy", "dx", "dy"):
                fields.append(("T", k, 2 ** -16))
        else:
            for k, q in QUANTA.items():
                if hasattr(p, k):
                    fields.append(("F", k, q))
        for kind, k, q in fields:
            import copy

            ch2 = list(chain)
            p2 = copy.deepcopy(p)
            if kind == "T":
                setattr(p2.Transform, k, getattr(p2.Transform, k) + q / 2)
            else:
                setattr(p2, k, getattr(p2, k) + q / 2)
            ch2[i] = p2
            d = comp(ch2) @ pts - base
            allow += np.sqrt((d[:2] ** 2).sum(0))
    return M, allow


def compile_roundtrip(ufo_paint):
    """nanoemoji paint dict -> real COLR bytes -> decompiled otTables paint of glyph 'a'."""
    from fontTools.colorLib.builder import buildCOLR
    from fontTools.ttLib import TTFont, newTable

    font = TTFont()
    font.setGlyphOrder([".notdef", "a", "b"])
    colr = buildCOLR({"a": ufo_paint}, version=1, glyphMap=font.getReverseGlyphMap())
    data = colr.compile(font)
    t2 = newTable("COLR")
    t2.decompile(data, font)
    return t2.table.BaseGlyphList.BaseGlyphPaintRecord[0].Paint


def run_case(case):
    if case.get("kind") == "repo-tests":
        return run_repo_tests(case)
    import numpy as np

    from vf.drive import inproc

    inproc.init()
    from nanoemoji import paint as pm
    from nanoemoji.colors import Color
    from picosvg.geometric_types import Point
    from picosvg.svg_transform import Affine2D
    from vf.hooks import contracts
    from vf.oracle import colreval
    from vf.oracle.paintref import linear_t, radial_t

    contracts.install()
    contracts.reset()
    r = common.rng(ID, case["seed"], case["i"])
    res = {"counters": {}, "maxes": {}, "violations": [], "keys": []}
    c = res["counters"]
    vc = colreval.VarCtx.__new__(colreval.VarCtx)
    vc.active = False
    black = Color(0, 0, 0, 1.0)
    target = pm.PaintGlyph(glyph="b", paint=pm.PaintSolid(color=black))
    pts = np.array([[x, y, 1.0] for x, y in BOX]).T

    def bump(k, n=1):
        c[k] = c.get(k, 0) + n

    # ---------------- (A) transformed + compile round trip
    for n in range(PER):
        tag, t = gen_affine(r)
        bump("A.affines")
        bump("A.kind." + tag)
        try:
            T = Affine2D(*t)
            wrapped = pm.transformed(T, target)
        except Exception as e:
            bump("A.transformed_raised")
            continue
        fmtname = type(wrapped).__name__
        bump("A.emitted." + fmtname)
        if tag != "rotate" or fmtname != "PaintTransform":
            res["keys"].append("%s:%r" % (tag, t))
        try:
            ot = compile_roundtrip(wrapped.to_ufo_paint([black]))
        except Exception as e:
            bump("A.compile_refused")  # an error instead of a wrapped value: what the statement asks for
            continue
        # walk the decompiled wrappers down to the PaintGlyph
        chain = []
        p = ot
        while colreval.is_xf(p):
            chain.append(ns_of(p))
            try:
                ft = aff(p.getTransform())
                mine = colreval._xf(chain[-1], vc)[0]
                if not np.allclose(ft, mine, atol=1e-9):
                    bump("oracle_disagreement_with_fontTools")
            except Exception:
                pass
            p = p.Paint
        if int(p.Format) != 10:
            res["violations"].append({"what": "decompiled wrapper chain does not end in the PaintGlyph", "affine": t})
            continue
        if T == Affine2D.identity():
            if chain:
                res["violations"].append({"what": "identity affine produced a wrapper", "affine": t})
            continue
        M, allow = chain_matrix_and_allowance(chain, vc)
        want = aff(t) @ pts
        got = M @ pts
        dev = np.sqrt(((got - want)[:2] ** 2).sum(0))
        ratio = float((dev / (allow + 1e-6)).max())
        res["maxes"]["A.max_dev_over_allowance"] = max(res["maxes"].get("A.max_dev_over_allowance", 0), ratio)
        if (dev > allow + 1e-6).any():
            i = int(np.argmax(dev - allow))
            res["violations"].append(
                {
                    "what": f"emitted {fmtname} does not denote the requested affine after compile/decompile (deviation {dev[i]:.6g} at {BOX[i]}, explained by field quanta: {allow[i]:.6g})",
                    "affine": list(t),
                    "kind": tag,
                    "decompiled": [vars(x) if int(x.Format) != 12 else {"Format": 12, **vars(x.Transform)} for x in chain],
                }
            )

    # ---------------- (B) gradients through apply_transform (+ overflow behaviour)
    for n in range(PER // 4):
        bump("B.gradients")
        tag, t = gen_affine(r)
        if tag == "beyond-fixed" or r.random() < 0.5:
            a = r.uniform(-3, 3)
            s = r.choice([1, 0.2, 3, 40, 600])
            t = (s * math.cos(a) * r.choice([1, 1, 1.4]), s * math.sin(a), -s * math.sin(a), s * math.cos(a), r.uniform(-2000, 2000), r.uniform(-2000, 2000))
        T = Affine2D(*t)
        sv = np.linalg.svd(aff(t)[:2, :2], compute_uv=False)
        if sv[1] <= 0 or sv[0] / sv[1] > 1e3:
            continue  # ill-conditioned affines are numerically moot for gradients (9-decimal rounding of the residual)
        stops = (pm.ColorStop(0.0, black), pm.ColorStop(1.0, black))
        if r.random() < 0.5:
            g = pm.PaintLinearGradient(stops=stops, p0=Point(r.uniform(-100, 100), r.uniform(-100, 100)), p1=Point(r.uniform(-100, 100), r.uniform(100, 300)), p2=Point(r.uniform(100, 300), r.uniform(-100, 100)))
            probes = np.array([[0, 0], [50, 80], [-120, 40], [200, -30], [10, 250]], float)
            t_in = linear_t(tuple(g.p0), tuple(g.p1), tuple(g.p2), probes)
        else:
            rr = r.uniform(10, 200)
            c1 = Point(r.uniform(-100, 100), r.uniform(-100, 100))
            a0 = r.uniform(0, 6.28)
            d0 = r.uniform(0, 0.6) * rr
            g = pm.PaintRadialGradient(stops=stops, c0=Point(c1.x + d0 * math.cos(a0), c1.y + d0 * math.sin(a0)), c1=c1, r0=r.choice([0, 0, rr * 0.2]), r1=rr)
            probes = np.array([[c1.x + 0.3 * rr, c1.y], [c1.x, c1.y - 0.6 * rr], [c1.x + 0.5 * rr, c1.y + 0.5 * rr], [c1.x - 0.2 * rr, c1.y + 0.1 * rr]], float)
            t_in = radial_t(tuple(g.c0), g.r0, tuple(g.c1), g.r1, probes)
        try:
            out = g.apply_transform(T)
        except OverflowError:
            bump("B.overflow_raised")
            continue
        except Exception as e:
            res["violations"].append({"what": f"apply_transform raised {type(e).__name__}: {e}", "affine": list(t)})
            continue
        # nothing raised: every emitted geometry field must be inside its OpenType range
        leaf = out
        Mwrap = np.eye(3)
        while pm.is_transform(leaf):
            Mwrap = Mwrap @ aff(tuple(leaf.gettransform()))
            leaf = leaf.paint
        vals = [*leaf.p0, *leaf.p1, *leaf.p2] if isinstance(leaf, pm.PaintLinearGradient) else [*leaf.c0, *leaf.c1]
        if any(not (-32768 <= v <= 32767) for v in vals) or (isinstance(leaf, pm.PaintRadialGradient) and any(not (0 <= v <= 65535) for v in (leaf.r0, leaf.r1))):
            res["violations"].append({"what": "gradient geometry outside its integer field range was returned without an error", "affine": list(t), "values": [float(v) for v in vals]})
            continue
        mapped = (aff(t) @ np.c_[probes, np.ones(len(probes))].T).T[:, :2]
        q = (np.linalg.inv(Mwrap) @ np.c_[mapped, np.ones(len(mapped))].T).T[:, :2]
        if isinstance(leaf, pm.PaintLinearGradient):
            t_out = linear_t(tuple(leaf.p0), tuple(leaf.p1), tuple(leaf.p2), q)
        else:
            t_out = radial_t(tuple(leaf.c0), leaf.r0, tuple(leaf.c1), leaf.r1, q)
        ok = ~(np.isnan(t_in) | np.isnan(t_out))
        if ok.any():
            dev = float(np.abs(t_in - t_out)[ok].max())
            res["maxes"]["B.max_dt"] = max(res["maxes"].get("B.max_dt", 0), dev)
            if dev > 1e-4 * (1 + float(np.abs(t_in[ok]).max())):  # far below the F2Dot14 quantum of stop offsets (6e-5 x colour slope)
                res["violations"].append({"what": f"gradient colour parameter changes under apply_transform (dt {dev:.3g})", "affine": list(t), "gradient": repr(g)[:300], "result": repr(out)[:400]})
        bump("B.t_checked")
        # and through the compiler: fields after decompile within one quantum
        try:
            ot = compile_roundtrip({"Format": 10, "Glyph": "b", "Paint": out.to_ufo_paint([black])})
        except Exception:
            bump("B.compile_refused")
            continue
        po = ot.Paint
        while colreval.is_xf(po):
            po = po.Paint
        pairs = list(zip([po.x0, po.y0, po.x1, po.y1], [*leaf.p0, *leaf.p1] if isinstance(leaf, pm.PaintLinearGradient) else [*leaf.c0, *leaf.c1]))
        if isinstance(leaf, pm.PaintRadialGradient):
            pairs += [(po.r0, leaf.r0), (po.r1, leaf.r1)]
        else:
            pairs += [(po.x2, leaf.p2[0]), (po.y2, leaf.p2[1])]
        # fontTools nudges a radial gradient's start circle so that it stays inside the end circle after rounding
        # (round_start_circle_stable_containment): small, deliberate, not a wrap
        lim = 3.0 if isinstance(leaf, pm.PaintRadialGradient) else 1.0
        for dec, want in pairs:
            if abs(dec - want) > lim + 1e-6:  # the compiler may round or truncate to the integer field; a wrap / clamp is far beyond that
                res["violations"].append({"what": f"gradient field decompiles to {dec}, requested {want}: silently wrapped / clamped", "affine": list(t)})
                break

    # ---------------- (C) uniform / residual split
    for n in range(PER // 4):
        tag, t = gen_affine(r)
        T = Affine2D(*t)
        sv = np.linalg.svd(aff(t)[:2, :2], compute_uv=False)
        if sv[1] <= 0 or sv[0] / sv[1] > 1e3 or tag == "beyond-fixed":
            continue
        bump("C.decompositions")
        try:
            uni, rem = pm._decompose_uniform_transform(T)
        except Exception as e:
            res["violations"].append({"what": f"_decompose_uniform_transform raised {type(e).__name__}: {e}", "affine": list(t)})
            continue
        if abs(abs(uni.a) - abs(uni.d)) > 1e-9 * max(1, abs(uni.a)) or abs(uni.b) > 1e-12 or abs(uni.c) > 1e-12:
            res["violations"].append({"what": "uniform part is not a uniform scale + translate", "affine": list(t), "uniform": tuple(uni)})
        got = aff(tuple(rem)) @ aff(tuple(uni))  # circles are mapped by the uniform part first, the residual wraps them
        scale = 1 + np.abs(aff(t) @ pts).max()
        if np.abs((got - aff(t)) @ pts).max() > 1e-5 * scale:
            res["violations"].append({"what": "residual o uniform != original affine", "affine": list(t), "uniform": tuple(uni), "residual": tuple(rem)})

    # ---------------- (D) Paint.from_ot(...).gettransform() for every static transform format
    from fontTools.ttLib.tables.otTables import PaintFormat as PF

    child = {"Format": PF.PaintGlyph, "Glyph": "b", "Paint": {"Format": PF.PaintSolid, "PaletteIndex": 0, "Alpha": 1.0}}
    for n in range(PER // 8):
        k = r.randint(0, 9)
        cx, cy = r.randint(-3000, 3000), r.randint(-3000, 3000)
        spec = [
            {"Format": PF.PaintTranslate, "dx": r.randint(-3000, 3000), "dy": r.randint(-3000, 3000)},
            {"Format": PF.PaintScale, "scaleX": r.uniform(-1.9, 1.9), "scaleY": r.uniform(-1.9, 1.9)},
            {"Format": PF.PaintScaleAroundCenter, "scaleX": r.uniform(-1.9, 1.9), "scaleY": r.uniform(-1.9, 1.9), "centerX": cx, "centerY": cy},
            {"Format": PF.PaintScaleUniform, "scale": r.uniform(-1.9, 1.9)},
            {"Format": PF.PaintScaleUniformAroundCenter, "scale": r.uniform(-1.9, 1.9), "centerX": cx, "centerY": cy},
            {"Format": PF.PaintRotate, "angle": r.uniform(-359, 359)},
            {"Format": PF.PaintRotateAroundCenter, "angle": r.uniform(-359, 359), "centerX": cx, "centerY": cy},
            {"Format": PF.PaintSkew, "xSkewAngle": r.uniform(-60, 60), "ySkewAngle": r.uniform(-60, 60)},
            {"Format": PF.PaintSkewAroundCenter, "xSkewAngle": r.uniform(-60, 60), "ySkewAngle": r.uniform(-60, 60), "centerX": cx, "centerY": cy},
            {"Format": PF.PaintTransform, "Transform": (r.uniform(-2, 2), r.uniform(-2, 2), r.uniform(-2, 2), r.uniform(-2, 2), r.uniform(-500, 500), r.uniform(-500, 500))},
        ][k]
        spec["Paint"] = child
        try:
            ot = compile_roundtrip(spec)
            mine = colreval._xf(ns_of(ot), vc)[0]
            theirs = aff(tuple(pm.Paint.from_ot(ot).gettransform()))
        except Exception as e:
            res["violations"].append({"what": f"Paint.from_ot / gettransform raised {type(e).__name__}: {e}", "paint": {kk: vv for kk, vv in spec.items() if kk != 'Paint'}})
            continue
        bump("D.from_ot_checked")
        bump("D.format.%d" % int(ot.Format))
        if np.abs((mine - theirs) @ pts).max() > 1e-6 * (1 + np.abs(mine @ pts).max()):
            res["violations"].append({"what": "gettransform() of a paint read from a font differs from the matrix the spec gives", "paint": {kk: (vv if not isinstance(vv, dict) else "...") for kk, vv in spec.items() if kk != "Paint"}, "nanoemoji": [float(x) for x in pm.Paint.from_ot(ot).gettransform()], "spec": [mine[0, 0], mine[1, 0], mine[0, 1], mine[1, 1], mine[0, 2], mine[1, 2]]})

    # ---------------- (E) the OT-SVG writer: a gradient under nested transform paints (+ an incoming transform, as a
    # reused shape has) must give the same colour parameter at corresponding viewBox points
    try:
        from lxml import etree
        from nanoemoji import svg as svgmod
        from nanoemoji.glyph_reuse import GlyphReuseCache
        from vf.oracle import svgeval

        for n in range(PER // 8):
            def wellcond():
                for _ in range(20):
                    tg, tt = gen_affine(r)
                    if tg in ("beyond-fixed", "near-singular"):
                        continue
                    m = aff(tt)[:2, :2]
                    sv = np.linalg.svd(m, compute_uv=False)
                    if sv[1] > 0.2 and sv[0] < 5 and max(abs(tt[4]), abs(tt[5])) < 3000:
                        return tt
                return (1, 0, 0, 1, r.randint(-300, 300), r.randint(-300, 300))

            depth = r.choice([1, 2, 2, 3])
            chainT = [wellcond() for _ in range(depth)]
            T0 = wellcond() if r.random() < 0.6 else (1, 0, 0, 1, 0, 0)
            cA, cB = Color(255, 0, 0, 1.0), Color(0, 0, 255, 1.0)
            stops = (pm.ColorStop(0.0, cA), pm.ColorStop(1.0, cB))
            if r.random() < 0.5:
                g = pm.PaintLinearGradient(stops=stops, p0=Point(r.uniform(0, 300), r.uniform(0, 300)), p1=Point(r.uniform(400, 900), r.uniform(400, 900)), p2=Point(r.uniform(-300, -100), r.uniform(500, 900)))
                gs_probes = np.array([[100, 100], [500, 300], [300, 700], [800, 800], [50, 600]], float)
                t_ref = linear_t(tuple(g.p0), tuple(g.p1), tuple(g.p2), gs_probes)
            else:
                rr = r.uniform(100, 500)
                c1 = Point(r.uniform(200, 800), r.uniform(200, 800))
                g = pm.PaintRadialGradient(stops=stops, c0=c1, c1=c1, r0=0, r1=rr)
                gs_probes = np.array([[c1.x + 0.3 * rr, c1.y], [c1.x, c1.y - 0.6 * rr], [c1.x + 0.5 * rr, c1.y + 0.5 * rr], [c1.x - 0.2 * rr, c1.y + 0.1 * rr]], float)
                t_ref = radial_t(tuple(g.c0), g.r0, tuple(g.c1), g.r1, gs_probes)
            tree = g
            for tt in reversed(chainT):
                tree = pm.PaintTransform(transform=tuple(tt), paint=tree)
            k_ = r.choice([0.1, 0.125, 128 / 1024, 0.5, 1.0])
            U = Affine2D(k_, 0, 0, -k_, r.choice([0, 0, 12.5]), r.choice([95.0, 100.0, 120.0]))
            Mtot = aff(tuple(U)) @ aff(T0)
            for tt in chainT:
                Mtot = Mtot @ aff(tt)
            svt = np.linalg.svd(Mtot[:2, :2], compute_uv=False)
            if svt[1] <= 0 or svt[0] / svt[1] > 12:
                bump("E.skipped_ill_conditioned_composition")
                continue
            vb_probes = (Mtot @ np.c_[gs_probes, np.ones(len(gs_probes))].T).T[:, :2]
            defs = etree.Element("defs")
            el = etree.Element("path")
            cache = svgmod.ReuseCache(0.1, GlyphReuseCache(0.1)) if r.random() < 0.7 else None
            try:
                svgmod._apply_paint(defs, el, tree, U, cache, Affine2D(*T0))
            except Exception as e:
                bump("E.apply_paint_raised")
                continue
            ns = 'xmlns="http://www.w3.org/2000/svg" xmlns:xlink="http://www.w3.org/1999/xlink"'
            dtxt = etree.tostring(defs).decode()
            doc = f'<svg {ns} viewBox="0 0 100 100">{dtxt}<path d="M0,0 L1,0 L1,1 Z" fill="{el.get("fill")}"/></svg>'
            try:
                lay = svgeval.display_list(doc, np.eye(3), svg_quantum=1e-3)
                pnt = lay[0].paint
                if "G" not in pnt.quanta:  # a residual that rounds to the identity is omitted: it was still rounded
                    pnt.G = np.eye(3)
                    pnt.Mpre = pnt.M.copy()
                    pnt.quanta["G"] = 1e-3
                t_got = pnt.tvals(vb_probes)
            except Exception as e:
                res["violations"].append({"what": f"gradient written by the OT-SVG writer cannot be evaluated: {type(e).__name__}: {e}", "defs": dtxt[:600]})
                continue
            bump("E.svg_gradients_checked")
            bump("E.depth.%d" % depth)
            ok = ~(np.isnan(t_ref) | np.isnan(t_got))
            if ok.any():
                # 3-decimal rounding of the written geometry and matrix, seen from the probes
                # the writer rounds geometry and matrix entries to 3 decimals: allow what half a unit in the 3rd decimal
                # of every written field does to t at the probes (x2), nothing more
                fd = pnt.field_dt(vb_probes)
                devs = np.abs(t_ref - t_got)
                excess = np.where(ok, devs - (2e-3 + 2.0 * fd), -1)
                dev = float(devs[ok].max())
                allow = float((2e-3 + 2.0 * fd)[int(np.argmax(excess))])
                res["maxes"]["E.max_dt_over_allowance"] = max(res["maxes"].get("E.max_dt_over_allowance", 0), float((devs[ok] / (2e-3 + 2.0 * fd[ok])).max()))
                explained = False
                if (excess > 0).any():
                    # the linear estimate is taken at the *written* gradient; where the matrix is squeezed it can be far
                    # from the effect of the same rounding seen from the exact one.  Decide exactly: is there a matrix
                    # inside the rounding box (half a unit in the 3rd decimal per entry) that reproduces the paint tree?
                    import itertools

                    base_t = pnt.tvals(vb_probes)
                    steps = (-0.5e-3, -0.25e-3, 0.0, 0.25e-3, 0.5e-3)
                    cand = []
                    for dl in itertools.product(steps, repeat=4):
                        G2 = pnt.G.copy()
                        for (i_, j_), dv in zip(((0, 0), (1, 0), (0, 1), (1, 1)), dl):
                            G2[i_, j_] += dv
                        cand.append(pnt.tvals(vb_probes, M=pnt.Mpre @ G2))
                    cand = np.array(cand)
                    spread = np.nanmax(np.abs(cand - base_t), axis=0)
                    geom_fd = fd  # includes the geometry fields; used as the small remainder
                    okc = np.all(np.where(ok, np.abs(cand - t_ref) <= 5e-3 + 0.35 * spread + 0.2 * geom_fd, True), axis=1)
                    explained = bool(okc.any())
                    bump("E.decided_by_rounding_box")
                    if explained:
                        bump("E.explained_by_rounding_box")
                if (excess > 0).any() and not explained:
                    res["violations"].append({"what": f"OT-SVG gradient under nested transforms: colour parameter differs from the paint tree's (dt {dev:.3g}, allowed {allow:.3g})", "incoming_transform": list(T0), "nested": [list(x) for x in chainT], "upem_to_vbox": list(tuple(U)), "defs": dtxt[:700], "t_ref": [float(x) for x in t_ref], "t_got": [float(x) for x in t_got]})
        # (E2) two gradients with the same circles and stops but different residual (non-uniform) transforms, written into
        # one document through one reuse cache: each element must get the gradient its own paint tree describes
        for n in range(PER // 16):
            rr = r.uniform(100, 400)
            c1 = Point(r.uniform(200, 800), r.uniform(200, 800))
            stops = (pm.ColorStop(0.0, Color(255, 0, 0, 1.0)), pm.ColorStop(1.0, Color(0, 0, 255, 1.0)))
            g = pm.PaintRadialGradient(stops=stops, c0=c1, c1=c1, r0=0, r1=rr)
            k_ = r.choice([0.4, 0.5, 0.6, 0.75])
            residuals = [(1, 0, 0, k_, 0, 0), (k_, 0, 0, 1, 0, 0)]
            if r.random() < 0.5:
                residuals.reverse()
            U = Affine2D(0.1, 0, 0, -0.1, 0, 0)  # no translation: both residuals keep the circles where they are
            defs = etree.Element("defs")
            cache = svgmod.ReuseCache(0.1, GlyphReuseCache(0.1))
            gs_probes = np.array([[c1.x + 0.3 * rr, c1.y], [c1.x, c1.y - 0.6 * rr], [c1.x + 0.5 * rr, c1.y + 0.5 * rr]], float)
            t_ref = radial_t(tuple(g.c0), g.r0, tuple(g.c1), g.r1, gs_probes)
            for which, tt in enumerate(residuals):
                el = etree.Element("path")
                try:
                    svgmod._apply_paint(defs, el, pm.PaintTransform(transform=tuple(tt), paint=g), U, cache, Affine2D.identity())
                except Exception:
                    bump("E.apply_paint_raised")
                    break
                Mtot = aff(tuple(U)) @ aff(tt)
                vb_probes = (Mtot @ np.c_[gs_probes, np.ones(len(gs_probes))].T).T[:, :2]
                ns = 'xmlns="http://www.w3.org/2000/svg" xmlns:xlink="http://www.w3.org/1999/xlink"'
                dtxt = etree.tostring(defs).decode()
                doc = f'<svg {ns} viewBox="0 0 100 100">{dtxt}<path d="M0,0 L1,0 L1,1 Z" fill="{el.get("fill")}"/></svg>'
                pnt = svgeval.display_list(doc, np.eye(3), svg_quantum=1e-3)[0].paint
                t_got = pnt.tvals(vb_probes)
                bump("E2.shared_cache_gradients_checked")
                dev = float(np.nanmax(np.abs(t_ref - t_got)))
                if dev > 0.02:
                    res["violations"].append({"what": f"OT-SVG writer: element {which} of two sharing one gradient cache is filled with a gradient that is not its own (dt {dev:.3g})", "residuals": residuals, "defs": dtxt[:700], "fill": el.get("fill")})
    except ImportError as e:
        bump("E.unavailable")

    # ---------------- (F) the encoder's overflow fallback inside a real build: a copy 40-80x smaller than its donor
    # under a gradient that is huge relative to the copy - the "wider encoding" chosen must still denote the same picture
    try:
        from vf.checks import c06, render_common as rc

        for n in range(2):
            svgs, m_ = c06.tiny_copy_big_gradient_set(r, 1000)
            srcs_ = [{"svg": t_, "codepoints": [0xE000 + k_]} for k_, t_ in enumerate(svgs)]
            before_ovf = contracts.counters().get("H7.overflow_raised", 0)
            try:
                built = inproc.build(srcs_, {"color_format": "glyf_colr_1", "upem": 1024, "ascender": 950, "descender": -250, "width": 1275, "reuse_tolerance": 0.1, "clip_to_viewbox": False, "keep_glyph_names": True})
            except Exception as e:
                if rc.is_overflow_refusal(e):
                    bump("F.build_refused")
                    continue
                res["violations"].append({"what": f"build with an overflowing reuse gradient raised {type(e).__name__}: {str(e)[:200]}", "sources": svgs})
                continue
            bump("F.builds")
            if contracts.counters().get("H7.overflow_raised", 0) > before_ovf:
                bump("F.builds_through_overflow_fallback")
            probs, _ = rc.check_colr_font(built, want_clip_check=False)
            for p_ in probs:
                if p_.get("mechanism"):
                    continue  # a listed finding of the picture checks (C01), not this property's business
                p_["what"] = "overflow fallback in a real build: " + p_["what"]
                p_["gradient"] = m_
                res["violations"].append(p_)
    except ImportError:
        bump("F.unavailable")

    for v in contracts.violations():
        res["violations"].append(v)
    c.update({k: v for k, v in contracts.counters().items() if k.startswith(("H1", "H7"))})
    res["nontrivial"] = True
    res["evaluated"] = sum(c.get(k_, 0) for k_ in ("A.affines", "B.gradients", "C.decompositions", "D.from_ot_checked", "E.svg_gradients_checked", "F.builds"))
    if case["i"] < 1:
        res["sample"] = {"affines": [gen_affine(common.rng("sample", i)) for i in range(6)]}
    return res


def finish(agg):
    c = agg["counters"]
    inc = []
    need = ["A.emitted.PaintTranslate", "A.emitted.PaintScale", "A.emitted.PaintScaleUniform", "A.emitted.PaintScaleAroundCenter", "A.emitted.PaintScaleUniformAroundCenter", "A.emitted.PaintTransform", "A.compile_refused", "B.overflow_raised", "B.t_checked", "C.decompositions", "D.from_ot_checked", "E.svg_gradients_checked", "E.depth.2", "E2.shared_cache_gradients_checked", "F.builds_through_overflow_fallback", "H1.transformed", "H7.PaintRadialGradient", "repo_tests.H1.transformed"]
    for k in need:
        if c.get(k, 0) == 0:
            inc.append(f"deciding monitor/branch never reached: {k}")
    if c.get("oracle_disagreement_with_fontTools", 0):
        inc.append(f"ORACLE-DISAGREEMENT: spec matrices vs fontTools getTransform differ {c['oracle_disagreement_with_fontTools']}x")
    return {"inconclusive": inc}
