"""Binary-level structural validator (C07, C11, C12): struct parsers written from the OpenType spec, so
that structures fontTools serialises "without complaint" are still seen."""
import gzip
import io
import re
import struct

from lxml import etree

XLINK = "{http://www.w3.org/1999/xlink}href"


def tables(data):
    sfnt, num = struct.unpack(">4sH", data[:6])
    out = {}
    for i in range(num):
        tag, cs, off, ln = struct.unpack(">4sIII", data[12 + 16 * i : 28 + 16 * i])
        out[tag.decode("latin1")] = data[off : off + ln]
    return sfnt, out


def num_glyphs(t):
    return struct.unpack(">H", t["maxp"][4:6])[0]


def check_colr(t, problems):
    d = t["COLR"]
    n = num_glyphs(t)
    version, nbase, obase, olayer, nlayer = struct.unpack(">HHIIH", d[:14])
    npal_entries = struct.unpack(">H", t["CPAL"][2:4])[0] if "CPAL" in t else 0
    prev = -1
    for i in range(nbase):
        gid, first, cnt = struct.unpack(">HHH", d[obase + 6 * i : obase + 6 * i + 6])
        if gid <= prev:
            problems.append(f"COLR v0 base glyph records not sorted / duplicated at record {i} (gid {gid} after {prev})")
        prev = gid
        if gid >= n:
            problems.append(f"COLR base glyph id {gid} out of range")
        if first + cnt > nlayer:
            problems.append(f"COLR base glyph {gid}: layers {first}+{cnt} exceed {nlayer} layer records")
    for i in range(nlayer):
        gid, pal = struct.unpack(">HH", d[olayer + 4 * i : olayer + 4 * i + 4])
        if gid >= n:
            problems.append(f"COLR layer {i}: glyph id {gid} out of range")
        if pal != 0xFFFF and pal >= npal_entries:
            problems.append(f"COLR layer {i}: palette index {pal} out of range ({npal_entries} entries)")
    if version >= 1:
        obgl, oll, ocl = struct.unpack(">III", d[14:26])
        if obgl:
            (cnt,) = struct.unpack(">I", d[obgl : obgl + 4])
            prev = -1
            for i in range(cnt):
                gid, off = struct.unpack(">HI", d[obgl + 4 + 6 * i : obgl + 10 + 6 * i])
                if gid <= prev:
                    problems.append(f"COLR v1 BaseGlyphPaintRecords not sorted / duplicated at record {i} (gid {gid} after {prev})")
                prev = gid
                if gid >= n:
                    problems.append(f"COLR v1 base glyph id {gid} out of range")
                if obgl + off >= len(d):
                    problems.append(f"COLR v1 paint offset of gid {gid} outside the table")
        if ocl:
            fmt, cnt = struct.unpack(">BI", d[ocl : ocl + 5])
            prev_end = -1
            for i in range(cnt):
                s, e = struct.unpack(">HH", d[ocl + 5 + 7 * i : ocl + 9 + 7 * i])
                if s > e or s <= prev_end:
                    problems.append(f"COLR ClipList range {i} ({s}-{e}) unsorted or overlapping")
                if e >= n:
                    problems.append(f"COLR ClipList range {i} glyph id {e} out of range")
                prev_end = e


def check_colr_objects(font, problems):
    """Object-level walk of COLRv1 paint graphs: glyph, layer and palette references in range."""
    colr = font["COLR"]
    if colr.version == 0:
        return
    t = colr.table
    glyphs = set(font.getGlyphOrder())
    npal = len(font["CPAL"].palettes[0]) if "CPAL" in font and font["CPAL"].palettes else 0
    nlayers = len(t.LayerList.Paint) if t.LayerList else 0
    base = {r.BaseGlyph for r in t.BaseGlyphList.BaseGlyphPaintRecord} if t.BaseGlyphList else set()
    seen = set()

    def walk(p, depth=0):
        if id(p) in seen or depth > 64:
            return
        seen.add(id(p))
        f = int(p.Format)
        if f == 1:
            if p.FirstLayerIndex + p.NumLayers > nlayers:
                problems.append(f"PaintColrLayers {p.FirstLayerIndex}+{p.NumLayers} exceeds LayerList ({nlayers})")
            for ch in (t.LayerList.Paint if t.LayerList else [])[p.FirstLayerIndex : p.FirstLayerIndex + p.NumLayers]:
                walk(ch, depth + 1)
            return
        if f in (2, 3) and p.PaletteIndex != 0xFFFF and p.PaletteIndex >= npal:
            problems.append(f"PaintSolid palette index {p.PaletteIndex} out of range ({npal})")
        if f in (4, 5, 6, 7, 8, 9):
            for s in p.ColorLine.ColorStop:
                if s.PaletteIndex != 0xFFFF and s.PaletteIndex >= npal:
                    problems.append(f"colour stop palette index {s.PaletteIndex} out of range ({npal})")
        if f == 10 and p.Glyph not in glyphs:
            problems.append(f"PaintGlyph references unknown glyph {p.Glyph}")
        if f == 11 and p.Glyph not in base:
            problems.append(f"PaintColrGlyph references {p.Glyph} which has no base glyph record")
        for attr in ("Paint", "SourcePaint", "BackdropPaint"):
            ch = getattr(p, attr, None)
            if ch is not None:
                walk(ch, depth + 1)

    if t.BaseGlyphList:
        for r in t.BaseGlyphList.BaseGlyphPaintRecord:
            walk(r.Paint)


def svg_documents(t):
    d = t["SVG "]
    version, odl = struct.unpack(">HI", d[:6])
    (n,) = struct.unpack(">H", d[odl : odl + 2])
    out = []
    for i in range(n):
        s, e, off, ln = struct.unpack(">HHII", d[odl + 2 + 12 * i : odl + 14 + 12 * i])
        raw = d[odl + off : odl + off + ln]
        if raw[:2] == b"\x1f\x8b":
            raw = gzip.decompress(raw)
        out.append((s, e, raw))
    return out


def check_svg(t, problems):
    n = num_glyphs(t)
    docs = svg_documents(t)
    prev_end = -1
    prev_start = -1
    for i, (s, e, raw) in enumerate(docs):
        if s < prev_start:
            problems.append(f"SVG document records not sorted by start glyph id at record {i} ({s} after {prev_start})")
        if s > e:
            problems.append(f"SVG document {i}: start {s} > end {e}")
        if s <= prev_end and i > 0 and s >= prev_start:
            problems.append(f"SVG document ranges overlap at record {i}: {s}-{e} after a range ending at {prev_end}")
        if e >= n:
            problems.append(f"SVG document {i}: glyph id {e} out of range")
        prev_end = max(prev_end, e)
        prev_start = s
        try:
            root = etree.fromstring(raw)
        except Exception as ex:
            problems.append(f"SVG document {i} does not parse: {ex}")
            continue
        ids = {}
        for el in root.iter():
            if isinstance(el.tag, str) and el.get("id") is not None:
                if el.get("id") in ids:
                    problems.append(f"SVG document {i}: id {el.get('id')!r} used twice")
                ids[el.get("id")] = el

        def owner(el):
            """the top-level glyph element an element lives in (None: defs / shared)"""
            while el is not None and el.getparent() is not root:
                el = el.getparent()
            if el is not None and (el.get("id") or "").startswith("glyph"):
                return el.get("id")
            return None

        for el in root.iter():
            if not isinstance(el.tag, str):
                continue
            refs = []
            for a in (XLINK, "href"):
                if el.get(a):
                    refs.append(el.get(a))
            for a in ("fill", "stroke", "clip-path", "mask", "filter"):
                v = el.get(a)
                if v:
                    m = re.match(r"url\(\s*(#[^)]+?)\s*\)", v.strip())
                    if m:
                        refs.append(m.group(1))
            for ref in refs:
                if not ref.startswith("#"):
                    problems.append(f"SVG document {i}: external reference {ref!r}")
                    continue
                tgt = ids.get(ref[1:])
                if tgt is None:
                    problems.append(f"SVG document {i}: reference {ref!r} does not resolve inside the document")
                    continue
                o_from, o_to = owner(el), owner(tgt)
                if o_to is not None and o_to != o_from:
                    problems.append(f"SVG document {i}: element in {o_from} references {ref!r} which lives inside glyph element {o_to}")
        for gid in range(s, e + 1):
            pass
    return docs


def check_cblc(t, problems):
    c = t["CBLC"]
    cb = t["CBDT"]
    n = num_glyphs(t)
    major, minor, nsizes = struct.unpack(">HHI", c[:8])
    seen = {}
    for i in range(nsizes):
        rec = c[8 + 48 * i : 8 + 48 * (i + 1)]
        oarr, size, nsub, colorref = struct.unpack(">IIII", rec[:16])
        sg, eg, ppx, ppy, depth, flags = struct.unpack(">HHBBBb", rec[40:48])
        if sg > eg or eg >= n:
            problems.append(f"CBLC strike {i}: glyph range {sg}-{eg} invalid (numGlyphs {n})")
        covered = []
        for j in range(nsub):
            first, last, add = struct.unpack(">HHI", c[oarr + 8 * j : oarr + 8 * j + 8])
            if first > last or first < sg or last > eg:
                problems.append(f"CBLC strike {i} subtable {j}: range {first}-{last} outside strike range {sg}-{eg}")
            h = oarr + add
            ifmt, imfmt, odata = struct.unpack(">HHI", c[h : h + 8])
            if ifmt != 1:
                problems.append(f"CBLC strike {i} subtable {j}: index format {ifmt} not handled by this validator")
                continue
            cnt = last - first + 2
            offs = struct.unpack(f">{cnt}I", c[h + 8 : h + 8 + 4 * cnt])
            for k in range(cnt - 1):
                gid = first + k
                a, b = odata + offs[k], odata + offs[k + 1]
                if b <= a:
                    problems.append(f"CBLC strike {i}: glyph {gid} has no bitmap data (offsets {a}..{b})")
                    continue
                if b > len(cb):
                    problems.append(f"CBLC strike {i}: glyph {gid} data {a}..{b} beyond CBDT ({len(cb)})")
                    continue
                if imfmt == 17:
                    (dl,) = struct.unpack(">I", cb[a + 5 : a + 9])
                    if dl != b - a - 9:
                        problems.append(f"CBDT glyph {gid}: dataLen {dl} inconsistent with offsets ({b - a - 9})")
                    if cb[a + 9 : a + 17] != b"\x89PNG\r\n\x1a\n":
                        problems.append(f"CBDT glyph {gid}: image data is not a PNG")
                key = (ppx, ppy, gid)
                if key in seen:
                    problems.append(f"CBLC: glyph {gid} has more than one bitmap at ppem {ppx}")
                seen[key] = 1
                covered.append(gid)
            if covered and covered != list(range(covered[0], covered[0] + len(covered))):
                problems.append(f"CBLC strike {i}: glyph ids of a run are not consecutive")
    return seen


def check_sbix(t, problems):
    s = t["sbix"]
    n = num_glyphs(t)
    ver, flags, nstrikes = struct.unpack(">HHI", s[:8])
    for i in range(nstrikes):
        (off,) = struct.unpack(">I", s[8 + 4 * i : 12 + 4 * i])
        ppem, ppi = struct.unpack(">HH", s[off : off + 4])
        offs = struct.unpack(f">{n + 1}I", s[off + 4 : off + 4 + 4 * (n + 1)])
        if any(b < a for a, b in zip(offs, offs[1:])):
            problems.append(f"sbix strike {i}: glyph data offsets decrease")
        if off + offs[-1] > len(s):
            problems.append(f"sbix strike {i}: glyph data beyond the table")


def check_glyph_set(t, font, problems, want_post3=None):
    n = num_glyphs(t)
    order = font.getGlyphOrder()
    if len(order) != n:
        problems.append(f"glyph order has {len(order)} names, maxp.numGlyphs is {n}")
    nh = struct.unpack(">H", t["hhea"][34:36])[0]
    if len(t["hmtx"]) != 4 * nh + 2 * (n - nh):
        problems.append(f"hmtx length {len(t['hmtx'])} does not match numGlyphs {n} / numberOfHMetrics {nh}")
    if "glyf" in t:
        fmt = struct.unpack(">h", t["head"][50:52])[0]
        nloca = len(t["loca"]) // (4 if fmt else 2)
        if nloca != n + 1:
            problems.append(f"loca has {nloca} entries for {n} glyphs")
    if "CFF " in t:
        cs = font["CFF "].cff[0].CharStrings
        if len(cs) != n:
            problems.append(f"CFF has {len(cs)} charstrings for {n} glyphs")
    if "CFF2" in t:
        cs = font["CFF2"].cff[0].CharStrings
        if len(cs) != n:
            problems.append(f"CFF2 has {len(cs)} charstrings for {n} glyphs")
    names = set(order)
    for st in font["cmap"].tables:
        for cp, g in st.cmap.items():
            if g not in names:
                problems.append(f"cmap maps U+{cp:04X} to unknown glyph {g}")
                break
    post_fmt = struct.unpack(">I", t["post"][:4])[0] / 65536.0
    if post_fmt == 2.0:
        (pn,) = struct.unpack(">H", t["post"][32:34])
        if pn != n:
            problems.append(f"post format 2 lists {pn} glyphs, maxp {n}")
    if want_post3 is not None and "glyf" in t:
        if want_post3 and post_fmt != 3.0:
            problems.append(f"TrueType-flavoured font without requested glyph names has post format {post_fmt}")
        if not want_post3 and post_fmt == 3.0:
            problems.append("glyph names were requested but post format is 3")


def roundtrip(data, problems):
    """load fully, save, reload: table-by-table XML dumps must be equal."""
    from fontTools.ttLib import TTFont

    f1 = TTFont(io.BytesIO(data), lazy=False)
    for tag in f1.keys():
        tb = f1[tag]
        if hasattr(tb, "ensureDecompiled"):
            try:
                tb.ensureDecompiled()
            except TypeError:
                tb.ensureDecompiled(recurse=True)
    b = io.BytesIO()
    f1.save(b)
    f2 = TTFont(io.BytesIO(b.getvalue()), lazy=False)

    def dump(font, tag):
        buf = io.BytesIO()
        font.saveXML(buf, tables=[tag])
        txt = buf.getvalue().decode("utf-8", "replace")
        txt = re.sub(r"<ttFont [^>]*>", "<ttFont>", txt)
        txt = re.sub(r"\s*<!--.*?-->", "", txt, flags=re.S)  # derived counts fontTools prints as comments
        if tag == "head":
            txt = re.sub(r'<(checkSumAdjustment|modified) value="[^"]*"/>', "", txt)
        return txt

    t1 = set(f1.keys())
    t2 = set(f2.keys())
    if t1 != t2:
        problems.append(f"tables differ after save+reload: {sorted(t1 ^ t2)}")
    for tag in sorted(t1 & t2):
        if tag == "GlyphOrder":
            if f1.getGlyphOrder() != f2.getGlyphOrder():
                problems.append("glyph order differs after save+reload")
            continue
        try:
            a, c = dump(f1, tag), dump(f2, tag)
        except Exception as e:
            problems.append(f"table {tag} cannot be dumped: {type(e).__name__}: {e}")
            continue
        if a != c:
            problems.append(f"table {tag} differs after save+reload")
    return f1


def validate(data, keep_glyph_names=None):
    """-> (problems, facts)"""
    problems = []
    facts = {}
    try:
        sfnt, t = tables(data)
    except Exception as e:
        return [f"sfnt directory unreadable: {e}"], facts
    facts["tables"] = sorted(t)
    try:
        font = roundtrip(data, problems)
    except Exception as e:
        problems.append(f"font does not load/decompile/re-save: {type(e).__name__}: {str(e)[:200]}")
        return problems, facts
    try:
        if "COLR" in t:
            check_colr(t, problems)
            check_colr_objects(font, problems)
            facts["colr"] = 1
        if "SVG " in t:
            docs = check_svg(t, problems)
            facts["svg_docs"] = len(docs)
        if "CBLC" in t:
            seen = check_cblc(t, problems)
            facts["cblc_bitmaps"] = len(seen)
        if "sbix" in t:
            check_sbix(t, problems)
            facts["sbix"] = 1
        check_glyph_set(t, font, problems, want_post3=None if keep_glyph_names is None else not keep_glyph_names)
    except Exception as e:
        import traceback

        problems.append(f"validator could not parse a table: {type(e).__name__}: {e} {traceback.format_exc()[-400:]}")
    return problems, facts
