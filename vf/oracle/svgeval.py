"""Small SVG evaluator -> display list (ordered layers in comparison space).

Covers what picosvg-normal sources, nanoemoji's OT-SVG documents and colr_to_svg output use:
svg / defs / g / path / use, `transform`, `opacity` (group opacity, not inherited),
`fill` (inherited, also through <use>), `fill-opacity`, linear/radial gradients with
objectBoundingBox / userSpaceOnUse units, gradientTransform, spreadMethod, focal point + fr,
href-inherited gradient attributes are not supported (picosvg resolves them).
"""
import math
import re

import numpy as np
from lxml import etree

from .geom import I, aff, apply, count_segments_svg_d, flatten_svg_d
from .paintref import Layer, Paint, fold_single_groups, parse_color

XLINK = "{http://www.w3.org/1999/xlink}href"


class Unsupported(Exception):
    pass


def num(s, scale=1.0):
    s = s.strip()
    return float(s[:-1]) / 100 * scale if s.endswith("%") else float(s)


def parse_transform(s):
    M = I.copy()
    for op, args in re.findall(r"(matrix|translate|scale|rotate|skewX|skewY)\s*\(([^)]*)\)", s or ""):
        a = [float(x) for x in re.split(r"[\s,]+", args.strip()) if x]
        if op == "matrix":
            T = aff(*a)
        elif op == "translate":
            T = aff(1, 0, 0, 1, a[0], a[1] if len(a) > 1 else 0)
        elif op == "scale":
            T = aff(a[0], 0, 0, a[1] if len(a) > 1 else a[0], 0, 0)
        elif op == "rotate":
            r = math.radians(a[0])
            R = aff(math.cos(r), math.sin(r), -math.sin(r), math.cos(r), 0, 0)
            if len(a) == 3:
                T = aff(1, 0, 0, 1, a[1], a[2]) @ R @ aff(1, 0, 0, 1, -a[1], -a[2])
            else:
                T = R
        elif op == "skewX":
            T = aff(1, 0, math.tan(math.radians(a[0])), 1, 0, 0)
        elif op == "skewY":
            T = aff(1, math.tan(math.radians(a[0])), 0, 1, 0, 0)
        M = M @ T
    return M


def view_box(svg_text):
    root = etree.fromstring(svg_text.encode() if isinstance(svg_text, str) else svg_text)
    return tuple(float(x) for x in re.split(r"[\s,]+", root.get("viewBox").strip()))


def _style(el, name, default=None):
    v = el.get(name)
    if v is None:
        st = el.get("style")
        if st:
            for part in st.split(";"):
                if ":" in part:
                    k, val = part.split(":", 1)
                    if k.strip() == name:
                        return val.strip()
    return default if v is None else v


def gradient_paint(el, bbox, CTM, opacity, svg_quantum=None):
    tag = etree.QName(el).localname
    units = el.get("gradientUnits", "objectBoundingBox")
    G = parse_transform(el.get("gradientTransform"))
    M = CTM.copy()
    if units == "objectBoundingBox":
        x0, y0, x1, y1 = bbox
        M = M @ aff(x1 - x0, 0, 0, y1 - y0, x0, y0)
    Mpre = M.copy()
    M = M @ G
    has_G = el.get("gradientTransform") is not None
    stops = []
    last = 0.0
    for st in el:
        if not isinstance(st.tag, str) or etree.QName(st).localname != "stop":
            continue
        off = min(1.0, max(0.0, num(_style(st, "offset", "0"))))
        off = max(off, last)  # SVG: offsets are made monotonic
        last = off
        col = parse_color(_style(st, "stop-color", "black"))
        a = num(_style(st, "stop-opacity", "1")) * col[3] * opacity
        stops.append((off, (col, a)))
    if not stops:
        raise Unsupported("gradient without stops")
    ext = el.get("spreadMethod", "pad")
    q = {}
    if tag == "linearGradient":
        g = lambda k, d: num(el.get(k, d))
        p0 = (g("x1", "0%"), g("y1", "0%"))
        p1 = (g("x2", "100%"), g("y2", "0%"))
        d = (p1[0] - p0[0], p1[1] - p0[1])
        p2 = (p0[0] - d[1], p0[1] + d[0])  # any point on the normal through p0
        if svg_quantum:
            q = {"p0": svg_quantum, "p1": svg_quantum}
        p = Paint("linear", p0=p0, p1=p1, p2=p2, M=M, stops=stops, extend=ext, period=(0.0, 1.0))
        p.quanta = q
        if svg_quantum and has_G:
            p.Mpre, p.G = Mpre, G
            p.quanta["G"] = svg_quantum
        return p
    if tag != "radialGradient":
        raise Unsupported(tag)
    g = lambda k, d: num(el.get(k, d))
    cx, cy, r = g("cx", "50%"), g("cy", "50%"), g("r", "50%")
    fx = num(el.get("fx")) if el.get("fx") is not None else cx
    fy = num(el.get("fy")) if el.get("fy") is not None else cy
    fr = g("fr", "0")
    p = Paint("radial", c0=(fx, fy), r0=fr, c1=(cx, cy), r1=r, M=M, stops=stops, extend=ext, period=(0.0, 1.0))
    if svg_quantum:
        p.quanta = {"c0": svg_quantum, "c1": svg_quantum, "r0": svg_quantum, "r1": svg_quantum}
        if has_G:
            p.Mpre, p.G = Mpre, G
            p.quanta["G"] = svg_quantum
    return p


def display_list(svg_text, A, only_id=None, svg_quantum=None, fold=True):
    """svg_text -> [Layer] with coordinates mapped by A (3x3) from the root user space.

    only_id: render only the element with this id (an OT-SVG glyph element) in the context of its
    ancestors.  Each Layer carries `err_svg`: the displacement that half a unit in the 3rd decimal of
    every transform entry on its path can cause (classification of excesses only, never an allowance)."""
    import itertools

    from .geom import sigma_max

    root = etree.fromstring(svg_text.encode() if isinstance(svg_text, str) else svg_text)
    ids = {}
    for e in root.iter():
        if isinstance(e.tag, str) and e.get("id"):
            ids.setdefault(e.get("id"), e)
    layers = []
    ctr = itertools.count()

    def draw_path(ch, chain, fill, fill_opacity, groups, via_use, use_sigma):
        M = A.copy()
        for T in chain:
            M = M @ T
        d = ch.get("d")
        ftol = max(1e-6, 0.02 / max(1e-9, sigma_max(M)))
        cs = flatten_svg_d(d, ftol) if d and d.strip() else []
        if fill is None:
            fill = "black"
        if fill.strip() == "none":
            return
        m = re.match(r"url\(\s*#([^)]+?)\s*\)", fill.strip())
        if m:
            allp = np.vstack(cs) if cs else np.zeros((1, 2))
            bbox = (allp[:, 0].min(), allp[:, 1].min(), allp[:, 0].max(), allp[:, 1].max())
            if m.group(1) not in ids:
                raise Unsupported("dangling gradient " + m.group(1))
            paint = gradient_paint(ids[m.group(1)], bbox, M, fill_opacity, svg_quantum)
        else:
            col = parse_color(fill)
            paint = Paint("solid", color=col, alpha=col[3] * fill_opacity)
        # error budget of decimal transforms along the chain
        err = 0.0
        if cs:
            pts = np.vstack(cs)
            outer = A.copy()
            inner_pts = [None] * len(chain)
            cur = pts
            for i in range(len(chain) - 1, -1, -1):
                inner_pts[i] = cur
                cur = apply(chain[i], cur)
            for i, T in enumerate(chain):
                if not np.allclose(T, I):
                    R = float(np.abs(inner_pts[i]).max())
                    err += sigma_max(outer) * 0.0005 * (2 * R + 2)
                outer = outer @ T
        L = Layer(
            [apply(M, c) for c in cs],
            paint,
            groups,
            sigma=use_sigma,
            nseg=count_segments_svg_d(d) if d and d.strip() else 0,
            ref=ch.get("id"),
            transformed=via_use,
        )
        L.err_svg = err
        layers.append(L)

    def walk(el, chain, fill, fo, groups, via_use, us):
        for ch in el:
            if not isinstance(ch.tag, str):
                continue
            tag = etree.QName(ch).localname
            if tag in ("defs", "linearGradient", "radialGradient", "title", "desc", "metadata", "clipPath"):
                continue
            render(ch, chain, fill, fo, groups, via_use, us)

    def render(ch, chain, fill, fo, groups, via_use, us):
        tag = etree.QName(ch).localname
        T = parse_transform(ch.get("transform"))
        chain2 = chain + [T]
        f = _style(ch, "fill", fill)
        fo2 = _style(ch, "fill-opacity")
        fo = fo if fo2 is None else float(fo2)
        g = groups
        op = _style(ch, "opacity")
        if op is not None and float(op) != 1.0:
            g = groups + ((("el", next(ctr)), float(op)),)
        if tag in ("g", "svg"):
            walk(ch, chain2, f, fo, g, via_use, us)
        elif tag == "path":
            draw_path(ch, chain2, f, fo, g, via_use, us)
        elif tag == "use":
            U = aff(1, 0, 0, 1, float(ch.get("x", "0")), float(ch.get("y", "0")))
            href = ch.get(XLINK) or ch.get("href")
            if not href or href[1:] not in ids:
                raise Unsupported(f"dangling use {href}")
            target = ids[href[1:]]
            render(target, chain2 + [U], f, fo, g, True, us * max(1.0, sigma_max(T)))
        else:
            raise Unsupported(tag)

    if only_id is None:
        walk(root, [], None, 1.0, (), False, 1.0)
    else:
        el = ids.get(only_id)
        if el is None:
            raise Unsupported("no element with id " + only_id)
        anc = []
        p = el.getparent()
        while p is not None:
            anc.append(p)
            p = p.getparent()
        chain, fill, fo, groups = [], None, 1.0, ()
        for a_ in reversed(anc):
            if a_ is root:
                continue
            chain = chain + [parse_transform(a_.get("transform"))]
            fill = _style(a_, "fill", fill)
            op = _style(a_, "opacity")
            if op is not None and float(op) != 1.0:
                groups = groups + ((("el", next(ctr)), float(op)),)
        render(el, chain, fill, fo, groups, False, 1.0)
    if fold:
        fold_single_groups(layers)
    return layers


def A_ref(vb, asc, desc, adv, user=None):
    """The placement sentence of C01: uniform scale so that viewBox height spans desc..asc,
    horizontally centred in the advance, y flipped at the ascender, then the user transform."""
    x, y, w, h = vb
    s = (asc - desc) / h
    A = aff(s, 0, 0, -s, -x * s + (adv - s * w) / 2, asc + y * s)
    return A if user is None else user @ A
