"""Name-keyed meaning of GSUB / GPOS / GDEF (C11, C12), written from the OpenType pairing rule
"array element i belongs to the i-th covered glyph", independently of nanoemoji's _REORDER_RULES."""
from fontTools.ttLib.tables import otTables as ot


def _vr(v):
    if v is None:
        return None
    return tuple(sorted((k, getattr(v, k)) for k in ("XPlacement", "YPlacement", "XAdvance", "YAdvance") if hasattr(v, k) and getattr(v, k)))


def _anchor(a):
    if a is None:
        return None
    return (a.Format, a.XCoordinate, a.YCoordinate, getattr(a, "AnchorPoint", None))


def _cov(c):
    return list(c.glyphs) if c is not None else []


def _recs(rule, attr):
    return tuple((r.SequenceIndex, r.LookupListIndex) for r in (getattr(rule, attr, None) or []))


def _classdef(cd):
    return tuple(sorted((cd.classDefs if cd is not None else {}).items()))


def _ctx(st, kind, chain):
    """Context / ChainContext, formats 1-3; kind 'Sub' or 'Pos'."""
    f = st.Format
    rec_attr = "SubstLookupRecord" if kind == "Sub" else "PosLookupRecord"
    pre = ("Chain" if chain else "") + kind
    if f == 1:
        sets = getattr(st, pre + "RuleSet")
        out = {}
        for g, rs in zip(_cov(st.Coverage), sets):
            rules = []
            for rule in getattr(rs, pre + "Rule") if rs is not None else []:
                if chain:
                    rules.append((tuple(rule.Backtrack), tuple(rule.Input), tuple(rule.LookAhead), _recs(rule, rec_attr)))
                else:
                    rules.append((tuple(rule.Input), _recs(rule, rec_attr)))
            out[g] = tuple(rules)
        return ("f1", tuple(sorted(out.items())))
    if f == 2:
        sets = getattr(st, pre + "ClassSet")
        out = []
        for cls, cs in enumerate(sets):
            rules = []
            for rule in getattr(cs, pre + "ClassRule") if cs is not None else []:
                if chain:
                    rules.append((tuple(rule.Backtrack), tuple(rule.Input), tuple(rule.LookAhead), _recs(rule, rec_attr)))
                else:
                    rules.append((tuple(rule.Class), _recs(rule, rec_attr)))
            out.append((cls, tuple(rules)))
        if chain:
            cds = (_classdef(st.BacktrackClassDef), _classdef(st.InputClassDef), _classdef(st.LookAheadClassDef))
        else:
            cds = (_classdef(st.ClassDef),)
        return ("f2", frozenset(_cov(st.Coverage)), cds, tuple(out))
    if chain:
        return ("f3", tuple(frozenset(_cov(c)) for c in st.BacktrackCoverage), tuple(frozenset(_cov(c)) for c in st.InputCoverage), tuple(frozenset(_cov(c)) for c in st.LookAheadCoverage), _recs(st, rec_attr))
    return ("f3", tuple(frozenset(_cov(c)) for c in st.Coverage), _recs(st, rec_attr))


def subtable_meaning(st):
    t = type(st).__name__
    if t.startswith("Extension"):
        return ("ext",) + subtable_meaning(st.ExtSubTable)
    if t == "SingleSubst":
        return (t, tuple(sorted(st.mapping.items())))
    if t == "MultipleSubst":
        return (t, tuple(sorted((k, tuple(v)) for k, v in st.mapping.items())))
    if t == "AlternateSubst":
        return (t, tuple(sorted((k, tuple(v)) for k, v in st.alternates.items())))
    if t == "LigatureSubst":
        return (t, tuple(sorted((k, tuple((tuple(l.Component), l.LigGlyph) for l in v)) for k, v in st.ligatures.items())))
    if t == "ContextSubst":
        return (t,) + _ctx(st, "Sub", False)
    if t == "ChainContextSubst":
        return (t,) + _ctx(st, "Sub", True)
    if t == "ContextPos":
        return (t,) + _ctx(st, "Pos", False)
    if t == "ChainContextPos":
        return (t,) + _ctx(st, "Pos", True)
    if t == "ReverseChainSingleSubst":
        return (t, tuple(sorted(zip(_cov(st.Coverage), st.Substitute))), tuple(frozenset(_cov(c)) for c in st.BacktrackCoverage), tuple(frozenset(_cov(c)) for c in st.LookAheadCoverage))
    if t == "SinglePos":
        if st.Format == 1:
            return (t, 1, frozenset(_cov(st.Coverage)), _vr(st.Value))
        return (t, 2, tuple(sorted((g, _vr(v)) for g, v in zip(_cov(st.Coverage), st.Value))))
    if t == "PairPos":
        if st.Format == 1:
            out = {}
            for g, ps in zip(_cov(st.Coverage), st.PairSet):
                for r in ps.PairValueRecord:
                    out[(g, r.SecondGlyph)] = (_vr(r.Value1), _vr(getattr(r, "Value2", None)))
            return (t, 1, tuple(sorted(out.items())))
        mat = tuple(tuple((_vr(c2.Value1), _vr(getattr(c2, "Value2", None))) for c2 in c1.Class2Record) for c1 in st.Class1Record)
        return (t, 2, frozenset(_cov(st.Coverage)), _classdef(st.ClassDef1), _classdef(st.ClassDef2), mat)
    if t == "CursivePos":
        return (t, tuple(sorted((g, (_anchor(r.EntryAnchor), _anchor(r.ExitAnchor))) for g, r in zip(_cov(st.Coverage), st.EntryExitRecord))))
    if t == "MarkBasePos":
        marks = tuple(sorted((g, (r.Class, _anchor(r.MarkAnchor))) for g, r in zip(_cov(st.MarkCoverage), st.MarkArray.MarkRecord)))
        bases = tuple(sorted((g, tuple(_anchor(a) for a in r.BaseAnchor)) for g, r in zip(_cov(st.BaseCoverage), st.BaseArray.BaseRecord)))
        return (t, marks, bases)
    if t == "MarkLigPos":
        marks = tuple(sorted((g, (r.Class, _anchor(r.MarkAnchor))) for g, r in zip(_cov(st.MarkCoverage), st.MarkArray.MarkRecord)))
        ligs = tuple(sorted((g, tuple(tuple(_anchor(a) for a in comp.LigatureAnchor) for comp in la.ComponentRecord)) for g, la in zip(_cov(st.LigatureCoverage), st.LigatureArray.LigatureAttach)))
        return (t, marks, ligs)
    if t == "MarkMarkPos":
        m1 = tuple(sorted((g, (r.Class, _anchor(r.MarkAnchor))) for g, r in zip(_cov(st.Mark1Coverage), st.Mark1Array.MarkRecord)))
        m2 = tuple(sorted((g, tuple(_anchor(a) for a in r.Mark2Anchor)) for g, r in zip(_cov(st.Mark2Coverage), st.Mark2Array.Mark2Record)))
        return (t, m1, m2)
    raise NotImplementedError(t)


def subtable_kind(st):
    t = type(st).__name__
    if t.startswith("Extension"):
        k = subtable_kind(st.ExtSubTable)
        return ("ext:" + k[0], k[1])
    return (t, getattr(st, "Format", None))


def gdef_meaning(font):
    if "GDEF" not in font:
        return None
    g = font["GDEF"].table
    out = {"GlyphClassDef": _classdef(getattr(g, "GlyphClassDef", None)), "MarkAttachClassDef": _classdef(getattr(g, "MarkAttachClassDef", None))}
    al = getattr(g, "AttachList", None)
    out["AttachList"] = tuple(sorted((gl, tuple(ap.PointIndex)) for gl, ap in zip(_cov(al.Coverage), al.AttachPoint))) if al is not None else None
    lc = getattr(g, "LigCaretList", None)
    out["LigCaretList"] = tuple(sorted((gl, tuple((c.Format, getattr(c, "Coordinate", None), getattr(c, "CaretValuePoint", None)) for c in lg.CaretValue)) for gl, lg in zip(_cov(lc.Coverage), lc.LigGlyph))) if lc is not None else None
    ms = getattr(g, "MarkGlyphSetsDef", None)
    out["MarkGlyphSetsDef"] = tuple(frozenset(_cov(c)) for c in ms.Coverage) if ms is not None else None
    return out


def layout_meaning(font):
    """{'GSUB': [lookup meanings], 'GPOS': [...], 'GDEF': {...}, features/scripts}; plus the set of (type, format) seen."""
    out = {}
    kinds = set()
    for tag in ("GSUB", "GPOS"):
        if tag not in font:
            continue
        t = font[tag].table
        lookups = []
        for lk in t.LookupList.Lookup if t.LookupList else []:
            subs = []
            for st in lk.SubTable:
                subs.append(subtable_meaning(st))
                kinds.add((tag,) + subtable_kind(st))
            lookups.append((lk.LookupFlag, getattr(lk, "MarkFilteringSet", None), tuple(subs)))
        feats = tuple((fr.FeatureTag, tuple(fr.Feature.LookupListIndex)) for fr in t.FeatureList.FeatureRecord) if t.FeatureList else ()
        scripts = []
        for sr in t.ScriptList.ScriptRecord if t.ScriptList else []:
            langs = [("dflt", tuple(sr.Script.DefaultLangSys.FeatureIndex) if sr.Script.DefaultLangSys else None)]
            for lr in sr.Script.LangSysRecord:
                langs.append((lr.LangSysTag, tuple(lr.LangSys.FeatureIndex)))
            scripts.append((sr.ScriptTag, tuple(langs)))
        out[tag] = (tuple(lookups), feats, tuple(scripts))
    out["GDEF"] = gdef_meaning(font)
    return out, kinds


def diff_meaning(a, b):
    """human-readable first differences between two layout_meaning() results"""
    out = []
    for tag in ("GSUB", "GPOS"):
        if (tag in a) != (tag in b):
            out.append(f"{tag} present before: {tag in a}, after: {tag in b}")
            continue
        if tag not in a:
            continue
        la, lb = a[tag][0], b[tag][0]
        if len(la) != len(lb):
            out.append(f"{tag}: {len(la)} lookups before, {len(lb)} after")
            continue
        for i, (x, y) in enumerate(zip(la, lb)):
            if x != y:
                kinds = [s[0] if s[0] != "ext" else "ext:" + s[1] for s in x[2]]
                out.append(f"{tag} lookup {i} ({kinds}) means something else after the reorder")
        if a[tag][1:] != b[tag][1:]:
            out.append(f"{tag} feature/script lists differ")
    if a.get("GDEF") != b.get("GDEF"):
        ga, gb = a.get("GDEF") or {}, b.get("GDEF") or {}
        for k in set(ga) | set(gb):
            if ga.get(k) != gb.get(k):
                out.append(f"GDEF {k} differs")
    return out


def coverage_order_problems(font):
    """Every Coverage (as decompiled from the binary) lists glyphs in strictly increasing glyph id order."""
    probs = []
    for tag in ("GSUB", "GPOS", "GDEF"):
        if tag not in font:
            continue
        stack = [(font[tag].table, tag)]
        seen = set()
        while stack:
            obj, path = stack.pop()
            if id(obj) in seen:
                continue
            seen.add(id(obj))
            if isinstance(obj, ot.Coverage):
                ids = [font.getGlyphID(g) for g in obj.glyphs]
                if any(b <= a for a, b in zip(ids, ids[1:])):
                    probs.append(f"{path}: coverage glyph ids not increasing: {ids[:12]}")
                continue
            if isinstance(obj, ot.PairSet):
                # consumers binary-search PairValueRecords by SecondGlyph: an unsorted set silently loses pairs
                ids = [font.getGlyphID(r.SecondGlyph) for r in obj.PairValueRecord]
                if any(b <= a for a, b in zip(ids, ids[1:])):
                    probs.append(f"{path}: PairValueRecords not sorted by second glyph id: {ids[:12]}")
            if hasattr(obj, "iterSubTables"):
                for e in obj.iterSubTables():
                    stack.append((e.value, f"{path}.{e.name}" + (f"[{e.index}]" if e.index is not None else "")))
    return probs
