"""Mini-shaper: cmap lookup, then the GSUB lookups of one feature in lookup-list order with
OpenType ligature matching (first matching ligature of the first glyph's set, left to right)."""


def feature_lookups(font, tag="ccmp"):
    if "GSUB" not in font:
        return []
    t = font["GSUB"].table
    if not t.FeatureList:
        return []
    idx = set()
    for fr in t.FeatureList.FeatureRecord:
        if fr.FeatureTag == tag:
            idx.update(fr.Feature.LookupListIndex)
    return sorted(idx)


def _subtables(lookup):
    for st in lookup.SubTable:
        if lookup.LookupType == 7:
            yield st.ExtSubTable.LookupType, st.ExtSubTable
        else:
            yield lookup.LookupType, st


def apply_lookup(lookup, glyphs):
    out = []
    i = 0
    subs = list(_subtables(lookup))
    while i < len(glyphs):
        g = glyphs[i]
        done = False
        for typ, st in subs:
            if typ == 1 and g in st.mapping:
                out.append(st.mapping[g])
                i += 1
                done = True
                break
            if typ == 4 and g in st.ligatures:
                for lig in st.ligatures[g]:
                    comps = list(lig.Component)
                    if glyphs[i + 1 : i + 1 + len(comps)] == comps:
                        out.append(lig.LigGlyph)
                        i += 1 + len(comps)
                        done = True
                        break
                if done:
                    break
        if not done:
            out.append(g)
            i += 1
    return out


def shape(font, codepoints, tag="ccmp"):
    cmap = font.getBestCmap() or {}
    notdef = font.getGlyphOrder()[0]
    glyphs = [cmap.get(cp, notdef) for cp in codepoints]
    if "GSUB" in font:
        ll = font["GSUB"].table.LookupList
        for li in feature_lookups(font, tag):
            glyphs = apply_lookup(ll.Lookup[li], glyphs)
    return glyphs
