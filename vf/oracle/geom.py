"""Flattening, winding numbers, boundary distance, sampled Hausdorff distance, 2x3 affines.

Independent of nanoemoji / picosvg; uses fontTools only to *read* outlines.
"""
import math

import numpy as np
from fontTools.pens.basePen import decomposeQuadraticSegment
from fontTools.pens.recordingPen import DecomposingRecordingPen, RecordingPen
from fontTools.svgLib.path import parse_path


def aff(a, b, c, d, e, f):
    """SVG / OpenType order (xx, yx, xy, yy, dx, dy) -> 3x3 matrix acting on column vectors."""
    return np.array([[a, c, e], [b, d, f], [0, 0, 1.0]])


I = aff(1, 0, 0, 1, 0, 0)


def translate(x, y):
    return aff(1, 0, 0, 1, x, y)


def scale(sx, sy=None):
    return aff(sx, 0, 0, sx if sy is None else sy, 0, 0)


def rotate(deg, cx=0.0, cy=0.0):
    r = math.radians(deg)
    R = aff(math.cos(r), math.sin(r), -math.sin(r), math.cos(r), 0, 0)
    return translate(cx, cy) @ R @ translate(-cx, -cy)


def apply(M, pts):
    pts = np.asarray(pts, float)
    return pts @ M[:2, :2].T + M[:2, 2]


def sigma_max(M):
    return float(np.linalg.svd(M[:2, :2], compute_uv=False)[0])


def tup(M):
    return (M[0, 0], M[1, 0], M[0, 1], M[1, 1], M[0, 2], M[1, 2])


def _cubic(p0, p1, p2, p3, n):
    t = np.linspace(0, 1, n + 1)[1:, None]
    return ((1 - t) ** 3) * p0 + 3 * ((1 - t) ** 2) * t * p1 + 3 * (1 - t) * t * t * p2 + t ** 3 * p3


def _quad(p0, p1, p2, n):
    t = np.linspace(0, 1, n + 1)[1:, None]
    return ((1 - t) ** 2) * p0 + 2 * (1 - t) * t * p1 + t * t * p2


def flatten(ops, tol=0.05):
    """RecordingPen ops -> list of closed polylines (np arrays Nx2)."""
    contours = []
    cur = []

    def nseg(*pts):
        pts = np.array(pts, float)
        L = np.abs(np.diff(pts, axis=0)).sum()
        return min(600, max(2, int(math.ceil(math.sqrt(L / (8 * tol) + 1))) * 2))

    for op, args in ops:
        if op == "moveTo":
            if len(cur) > 1:
                contours.append(np.array(cur))
            cur = [np.array(args[0], float)]
        elif op == "lineTo":
            cur.append(np.array(args[0], float))
        elif op == "curveTo":
            if len(args) != 3:  # super-bezier: let fontTools decompose
                from fontTools.pens.basePen import decomposeSuperBezierSegment

                segs = decomposeSuperBezierSegment(args)
            else:
                segs = [args]
            for seg in segs:
                p0 = cur[-1]
                p1, p2, p3 = [np.array(a, float) for a in seg]
                cur.extend(list(_cubic(p0, p1, p2, p3, nseg(p0, p1, p2, p3))))
        elif op == "qCurveTo":
            if args[-1] is None:
                # closed contour of off-curve points only (TrueType special case)
                offs = [np.array(a, float) for a in args[:-1]]
                start = (offs[-1] + offs[0]) / 2
                cur = [start]
                n = len(offs)
                for i in range(n):
                    c = offs[i]
                    e = (offs[i] + offs[(i + 1) % n]) / 2
                    cur.extend(list(_quad(cur[-1], c, e, nseg(cur[-1], c, e))))
                continue
            for c, e in decomposeQuadraticSegment(args):
                p0 = cur[-1]
                c = np.array(c, float)
                e = np.array(e, float)
                cur.extend(list(_quad(p0, c, e, nseg(p0, c, e))))
        elif op in ("closePath", "endPath"):
            if len(cur) > 1:
                contours.append(np.array(cur))
            cur = []
    if len(cur) > 1:
        contours.append(np.array(cur))
    return contours


def flatten_adaptive(ops, tol, scale=1.0):
    """Flatten with chord tolerance max(tol, extent/40000) (in the units of ops); `scale` is the factor by
    which the result will be magnified, so the bound is applied to the magnified size."""
    coarse = flatten(ops, 1e12)
    if not coarse:
        return coarse
    allp = np.vstack(coarse)
    extent = float(np.ptp(allp, axis=0).max())
    return flatten(ops, max(tol, extent / 40000.0))


def flatten_svg_d(d, tol=0.01):
    pen = RecordingPen()
    parse_path(d, pen)
    return flatten_adaptive(pen.value, tol)


def count_segments_svg_d(d):
    pen = RecordingPen()
    parse_path(d, pen)
    return sum(1 for op, _ in pen.value if op in ("lineTo", "curveTo", "qCurveTo", "closePath", "moveTo"))


def flatten_glyph(glyphset, name, tol=0.01):
    pen = DecomposingRecordingPen(glyphset)
    glyphset[name].draw(pen)
    return flatten_adaptive(pen.value, tol)


def glyph_ops(glyphset, name):
    pen = DecomposingRecordingPen(glyphset)
    glyphset[name].draw(pen)
    return pen.value


def segs(contours):
    A = []
    B = []
    for c in contours:
        A.append(c)
        B.append(np.roll(c, -1, axis=0))
    return np.vstack(A), np.vstack(B)


def dist_to(contours, pts):
    A, B = segs(contours)
    pts = np.asarray(pts, float)
    out = np.empty(len(pts))
    d = B - A
    L2 = (d * d).sum(1)
    L2[L2 == 0] = 1e-30
    # chunk to bound memory
    step = max(1, int(2_000_000 // max(1, len(A))))
    for i in range(0, len(pts), step):
        p = pts[i : i + step]
        ap = p[:, None, :] - A[None]
        t = np.clip((ap * d[None]).sum(2) / L2[None], 0, 1)
        proj = A[None] + t[..., None] * d[None]
        out[i : i + step] = np.sqrt(((p[:, None, :] - proj) ** 2).sum(2)).min(1)
    return out


def winding(contours, pts):
    A, B = segs(contours)
    pts = np.asarray(pts, float)
    x = pts[:, 0][:, None]
    y = pts[:, 1][:, None]
    ay = A[:, 1][None]
    by = B[:, 1][None]
    ax = A[:, 0][None]
    bx = B[:, 0][None]
    up = (ay <= y) & (by > y)
    dn = (ay > y) & (by <= y)
    isleft = (bx - ax) * (y - ay) - (x - ax) * (by - ay)
    return (up & (isleft > 0)).sum(1) - (dn & (isleft < 0)).sum(1)


def resample(contours, step):
    out = []
    for c in contours:
        nxt = np.roll(c, -1, axis=0)
        seg = nxt - c
        L = np.sqrt((seg * seg).sum(1))
        n = np.maximum(1, np.ceil(L / step).astype(int))
        for a, s, k in zip(c, seg, n):
            out.append(a + s * np.linspace(0, 1, k, endpoint=False)[:, None])
    return np.vstack(out)


def length(contours):
    return float(sum(np.sqrt(((np.roll(c, -1, axis=0) - c) ** 2).sum(1)).sum() for c in contours))


def hausdorff(c1, c2, step=2.0, max_samples=1500):
    """Sampled two-sided Hausdorff distance (a lower bound of the true one: never a false alarm)."""
    if not c1 or not c2:
        return float("inf") if (c1 or c2) else 0.0
    step = max(step, max(length(c1), length(c2)) / max_samples)
    return max(dist_to(c2, resample(c1, step)).max(), dist_to(c1, resample(c2, step)).max())


def bbox(contours):
    if not contours:
        return None
    allp = np.vstack(contours)
    x0, y0 = allp.min(0)
    x1, y1 = allp.max(0)
    return (float(x0), float(y0), float(x1), float(y1))


def area(contours):
    a = 0.0
    for c in contours:
        x = c[:, 0]
        y = c[:, 1]
        a += 0.5 * float(np.sum(x * np.roll(y, -1) - np.roll(x, -1) * y))
    return a


def grid(box, n):
    x0, y0, x1, y1 = box
    gx, gy = np.meshgrid(np.linspace(x0, x1, n), np.linspace(y0, y1, n))
    return np.c_[gx.ravel(), gy.ravel()]
