"""COLR (v0 / v1, static or at a variation location) -> display list.  Written from the OpenType
COLR chapter; fontTools is used to read tables and outlines only.  Transform matrices are
derived here from the spec and cross-checked against fontTools' own Paint.getTransform()
(disagreements are counted by callers as oracle self-check failures, never as violations).
"""
import math

import numpy as np

from .geom import I, aff, apply, flatten_adaptive, glyph_ops, sigma_max, translate
from .paintref import Layer, Paint, fold_single_groups

Q_F2DOT14 = 1.0 / 16384
Q_FIXED = 1.0 / 65536


class Unsupported(Exception):
    pass


SELF_CHECK = {"transforms_checked": 0, "transform_disagreements": 0}


class VarCtx:
    """Delta lookup for variable COLR at a normalised location (None = static / default)."""

    def __init__(self, font, location=None):
        self.font = font
        self.active = False
        colr = font["COLR"]
        if location and colr.version == 1 and getattr(colr.table, "VarStore", None) is not None:
            from fontTools.varLib.varStore import VarStoreInstancer

            axes = font["fvar"].axes
            self.inst = VarStoreInstancer(colr.table.VarStore, axes, location)
            self.map = colr.table.VarIndexMap.mapping if getattr(colr.table, "VarIndexMap", None) else None
            self.active = True

    def delta(self, base, i):
        if not self.active or base is None or base == 0xFFFFFFFF:
            return 0.0
        idx = base + i
        if self.map is not None:
            idx = self.map[idx] if idx < len(self.map) else self.map[-1]
        if idx == 0xFFFFFFFF:
            return 0.0
        return float(self.inst[idx])


def _col(font, idx, alpha, palette=0):
    if idx == 0xFFFF:
        return (("fg", None, None, 1.0), alpha)
    c = font["CPAL"].palettes[palette][idx]
    return (("rgb", (c.red, c.green, c.blue), idx, 1.0), alpha * c.alpha / 255)


def _xf(p, vc):
    """(matrix, quantum of its linear fields, quantum of its translation fields) for a transform paint."""
    f = int(p.Format)
    var = f % 2 == 1 and f >= 13
    base = getattr(p, "VarIndexBase", None) if var else None
    if f == 13:  # the variation index of a PaintVarTransform lives in its VarAffine2x3
        base = getattr(p.Transform, "VarIndexBase", None)
    k = [0]

    def v(val, scale):
        d = vc.delta(base, k[0]) * scale if var else 0.0
        k[0] += 1
        return val + d

    def ang(val):
        return math.radians(v(val, 180.0 * Q_F2DOT14))

    if f in (12, 13):
        t = p.Transform
        xx = v(t.xx, Q_FIXED)
        yx = v(t.yx, Q_FIXED)
        xy = v(t.xy, Q_FIXED)
        yy = v(t.yy, Q_FIXED)
        dx = v(t.dx, Q_FIXED)
        dy = v(t.dy, Q_FIXED)
        return aff(xx, yx, xy, yy, dx, dy), Q_FIXED, Q_FIXED
    if f in (14, 15):
        return translate(v(p.dx, 1.0), v(p.dy, 1.0)), 0.0, 0.0
    if f in (16, 17, 18, 19):
        sx = v(p.scaleX, Q_F2DOT14)
        sy = v(p.scaleY, Q_F2DOT14)
        M = aff(sx, 0, 0, sy, 0, 0)
        if f >= 18:
            cx = v(p.centerX, 1.0)
            cy = v(p.centerY, 1.0)
            M = translate(cx, cy) @ M @ translate(-cx, -cy)
        return M, Q_F2DOT14, 0.0
    if f in (20, 21, 22, 23):
        s = v(p.scale, Q_F2DOT14)
        M = aff(s, 0, 0, s, 0, 0)
        if f >= 22:
            cx = v(p.centerX, 1.0)
            cy = v(p.centerY, 1.0)
            M = translate(cx, cy) @ M @ translate(-cx, -cy)
        return M, Q_F2DOT14, 0.0
    if f in (24, 25, 26, 27):
        a = ang(p.angle)
        M = aff(math.cos(a), math.sin(a), -math.sin(a), math.cos(a), 0, 0)
        if f >= 26:
            cx = v(p.centerX, 1.0)
            cy = v(p.centerY, 1.0)
            M = translate(cx, cy) @ M @ translate(-cx, -cy)
        return M, math.pi * Q_F2DOT14, 0.0
    if f in (28, 29, 30, 31):
        ax = ang(p.xSkewAngle)
        ay = ang(p.ySkewAngle)
        M = aff(1, math.tan(ay), -math.tan(ax), 1, 0, 0)
        if f >= 30:
            cx = v(p.centerX, 1.0)
            cy = v(p.centerY, 1.0)
            M = translate(cx, cy) @ M @ translate(-cx, -cy)
        q = math.pi * Q_F2DOT14 * max(1 / math.cos(ax) ** 2, 1 / math.cos(ay) ** 2)
        return M, q, 0.0
    raise Unsupported(f"transform format {f}")


def is_xf(p):
    return 12 <= int(p.Format) <= 31


def _selfcheck(p, M, vc):
    if vc.active:
        return
    try:
        t = p.getTransform()
    except Exception:
        return
    SELF_CHECK["transforms_checked"] += 1
    if not np.allclose(M, aff(*t), atol=1e-6):
        SELF_CHECK["transform_disagreements"] += 1


def _colorline(font, cl, vc, palette):
    stops = []
    for s in cl.ColorStop:
        off, al = s.StopOffset, s.Alpha
        base = getattr(s, "VarIndexBase", None)
        if base is not None and vc.active:
            off += vc.delta(base, 0) * Q_F2DOT14
            al += vc.delta(base, 1) * Q_F2DOT14
        stops.append((off, _col(font, s.PaletteIndex, al, palette)))
    stops.sort(key=lambda s: s[0])
    ext = {0: "pad", 1: "repeat", 2: "reflect"}[int(cl.Extend)]
    # COLR: the extend mode applies outside the interval [min stop offset, max stop offset]
    period = (stops[0][0], stops[-1][0])
    return stops, ext, period


class Evaluator:
    def __init__(self, font, location=None, palette=0):
        self.font = font
        self.colr = font["COLR"]
        self.vc = VarCtx(font, location)
        self.palette = palette
        self.gs = font.getGlyphSet(location=location) if location else font.getGlyphSet()
        self._ops = {}
        if self.colr.version == 1:
            t = self.colr.table
            self.base = {r.BaseGlyph: r.Paint for r in t.BaseGlyphList.BaseGlyphPaintRecord} if t.BaseGlyphList else {}
            self.layers = t.LayerList.Paint if t.LayerList else []
        else:
            self.base = {}

    def ops(self, name):
        if name not in self._ops:
            o = glyph_ops(self.gs, name)
            self._ops[name] = (flatten_adaptive(o, 0.01), sum(1 for op, _ in o if op != "endPath"))
        return self._ops[name]

    def component_sigma(self, name):
        """Largest singular value among the component transforms of a TrueType composite (1.0 for simple glyphs and
        CFF): a stored donor outline placed through it carries its own integer rounding scaled by that much."""
        glyf = self.font.get("glyf") if "glyf" in self.font else None
        if glyf is None or name not in glyf.glyphs:
            return 1.0
        g = glyf[name]
        if not g.isComposite():
            return 1.0
        s = 1.0
        for comp in g.components:
            t = getattr(comp, "transform", None)
            if t is not None:
                m = np.array([[t[0][0], t[1][0]], [t[0][1], t[1][1]]], float)
                s = max(s, float(np.linalg.svd(m, compute_uv=False)[0]) * self.component_sigma(comp.glyphName))
            else:
                s = max(s, self.component_sigma(comp.glyphName))
        return s

    def component_err(self, name):
        """Displacement a composite adds on top of its donor's own rounding: integer component offsets (half a unit per
        axis) and F2Dot14 matrix entries acting on coordinates up to 4 em."""
        if not self._is_composite(name):
            return 0.0
        R = 4.0 * self.font["head"].unitsPerEm
        return 0.7072 + 0.5 * Q_F2DOT14 * 2 * R

    def _is_composite(self, name):
        return "glyf" in self.font and name in self.font["glyf"].glyphs and self.font["glyf"][name].isComposite()

    def has_glyph(self, name):
        if self.colr.version == 0:
            return name in self.colr.ColorLayers
        if name in self.base:
            return True
        v0 = getattr(self.colr, "ColorLayers", None) or {}
        return name in v0

    def color_glyphs(self):
        if self.colr.version == 0:
            return list(self.colr.ColorLayers)
        return list(self.base)

    def clip_box(self, name):
        if self.colr.version == 0:
            return None
        cl = getattr(self.colr.table, "ClipList", None)
        if not cl or name not in cl.clips:
            return None
        c = cl.clips[name]
        vals = [c.xMin, c.yMin, c.xMax, c.yMax]
        if int(getattr(c, "Format", 1)) == 2 and self.vc.active:
            vals = [v + self.vc.delta(c.VarIndexBase, i) for i, v in enumerate(vals)]
        return tuple(float(v) for v in vals)

    def leafpaint(self, p, T):
        f = int(p.Format)
        vc = self.vc
        if f in (2, 3):
            a = p.Alpha + (vc.delta(p.VarIndexBase, 0) * Q_F2DOT14 if f == 3 else 0)
            col, a = _col(self.font, p.PaletteIndex, a, self.palette)
            return Paint("solid", color=col, alpha=a)
        if f in (4, 5, 6, 7):
            stops, ext, period = _colorline(self.font, p.ColorLine, vc, self.palette)
            base = p.VarIndexBase if f in (5, 7) else None
            d = lambda i: vc.delta(base, i) if base is not None else 0.0
            if f in (4, 5):
                pt = Paint(
                    "linear",
                    p0=(p.x0 + d(0), p.y0 + d(1)),
                    p1=(p.x1 + d(2), p.y1 + d(3)),
                    p2=(p.x2 + d(4), p.y2 + d(5)),
                    M=T,
                    stops=stops,
                    extend=ext,
                    period=period,
                )
                pt.quanta = {"p0": 1.0, "p1": 1.0, "p2": 1.0}
                return pt
            pt = Paint(
                "radial",
                c0=(p.x0 + d(0), p.y0 + d(1)),
                r0=p.r0 + d(2),
                c1=(p.x1 + d(3), p.y1 + d(4)),
                r1=p.r1 + d(5),
                M=T,
                stops=stops,
                extend=ext,
                period=period,
            )
            pt.quanta = {"c0": 1.0, "c1": 1.0, "r0": 1.0, "r1": 1.0}
            return pt
        if is_xf(p):
            M, _, _ = _xf(p, vc)
            _selfcheck(p, M, vc)
            return self.leafpaint(p.Paint, T @ M)
        raise Unsupported(f"fill paint format {f}")

    def display_list(self, glyph_name, fold=True):
        layers = []
        colr = self.colr
        v0 = getattr(colr, "ColorLayers", None) if colr.version == 0 else None
        if colr.version == 0 or (glyph_name not in self.base and glyph_name in (getattr(colr, "ColorLayers", None) or {})):
            for rec in colr.ColorLayers[glyph_name]:
                col, a = _col(self.font, rec.colorID, 1.0, self.palette)
                cs, n = self.ops(rec.name)
                csig = self.component_sigma(rec.name)
                layers.append(Layer(cs, Paint("solid", color=col, alpha=a), (), sigma=max(1.0, csig), err=self.component_err(rec.name), nseg=n, ref=rec.name, transformed=csig != 1.0 or self._is_composite(rec.name)))
            return layers

        import itertools

        ctr = itertools.count()

        def walk(p, T, groups, sig, err, depth, seen):
            f = int(p.Format)
            if depth > 64:
                raise Unsupported("paint graph too deep / cyclic")
            if f == 1:
                for ch in self.layers[p.FirstLayerIndex : p.FirstLayerIndex + p.NumLayers]:
                    walk(ch, T, groups, sig, err, depth + 1, seen)
            elif f == 10:
                cs, n = self.ops(p.Glyph)
                out = [apply(T, c) for c in cs]
                layers.append(
                    Layer(out, self.leafpaint(p.Paint, T), groups, sigma=max(1.0, sigma_max(T)) * self.component_sigma(p.Glyph), err=err + sigma_max(T) * self.component_err(p.Glyph), nseg=n, ref=p.Glyph, transformed=not np.allclose(T, I))
                )
            elif is_xf(p):
                M, ql, qt = _xf(p, self.vc)
                _selfcheck(p, M, self.vc)
                # displacement bound from half a quantum in each field, pushed through the outer transform
                R = 4.0 * self.font["head"].unitsPerEm
                e = sigma_max(T) * (0.5 * ql * 2 * R * max(1.0, sigma_max(M)) + 0.5 * qt * 2)
                walk(p.Paint, T @ M, groups, sig, err + e, depth + 1, seen)
            elif f == 32:
                mode = int(p.CompositeMode)
                bd = p.BackdropPaint
                if mode == 5 and int(bd.Format) in (2, 3):  # SRC_IN over a solid: group alpha
                    a = bd.Alpha + (self.vc.delta(bd.VarIndexBase, 0) * Q_F2DOT14 if int(bd.Format) == 3 else 0)
                    _, a = _col(self.font, bd.PaletteIndex, a, self.palette)
                    walk(p.SourcePaint, T, groups + ((("cmp", next(ctr)), a),), sig, err, depth + 1, seen)
                else:
                    raise Unsupported(f"composite mode {mode}")
            elif f == 11:
                if p.Glyph in seen:
                    raise Unsupported("cyclic PaintColrGlyph")
                if p.Glyph not in self.base:
                    raise Unsupported("PaintColrGlyph to non-colour glyph")
                walk(self.base[p.Glyph], T, groups, sig, err, depth + 1, seen | {p.Glyph})
            else:
                raise Unsupported(f"paint format {f}")

        walk(self.base[glyph_name], I.copy(), (), 1.0, 0.0, 0, frozenset([glyph_name]))
        if fold:
            fold_single_groups(layers)
        return layers
