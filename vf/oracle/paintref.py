"""Paint functions of the reference interpreters: colours, colour lines, gradient parameters.

Written from the SVG 1.1/2 and OpenType COLR specifications; imports nothing from nanoemoji.
"""
import re

import numpy as np
from PIL import ImageColor

from .geom import apply


def named_rgb(s):
    return ImageColor.getrgb(s)[:3]


def parse_color(s):
    """-> (kind, rgb|None, palette_index|None, alpha); kind in 'rgb','fg'."""
    s = s.strip()
    m = re.match(r"var\s*\(\s*--color(\d+)\s*,\s*(.+)\)\s*$", s, re.S)
    pal = None
    if m:
        pal = int(m.group(1))
        s = m.group(2).strip()
    if s.lower() == "currentcolor":
        return ("fg", None, pal, 1.0)
    a = 1.0
    if s.startswith("#"):
        h = s[1:]
        if len(h) in (3, 4):
            h = "".join(c + c for c in h)
        rgb = tuple(int(h[i : i + 2], 16) for i in (0, 2, 4))
        if len(h) == 8:
            a = int(h[6:8], 16) / 255
        return ("rgb", rgb, pal, a)
    m = re.match(r"rgba?\((.*)\)$", s)
    if m:
        v = [x for x in re.split(r"[ ,/]+", m.group(1).strip()) if x]

        def ch(x):
            if x.endswith("%"):
                return max(0, min(255, round(float(x[:-1]) * 2.55)))
            return max(0, min(255, round(float(x))))

        rgb = tuple(ch(x) for x in v[:3])
        if len(v) > 3:
            a = float(v[3])
        return ("rgb", rgb, pal, a)
    return ("rgb", named_rgb(s), pal, a)


def extend_t(t, mode, lo=0.0, hi=1.0):
    t = np.asarray(t, float)
    if mode == "pad" or hi <= lo:
        # no clipping: np.interp holds the first colour below the first stop and the last colour
        # at/above the last one, which is the rule for coincident stops at either end
        return t
    span = hi - lo
    if mode == "repeat":
        return lo + np.mod(t - lo, span)
    if mode == "reflect":
        u = np.mod(t - lo, 2 * span)
        return lo + np.where(u > span, 2 * span - u, u)
    raise ValueError(mode)


def colorline(stops, t, mode, period):
    """stops: [(offset, (r,g,b,a))] floats; period: (lo, hi) interval the extend mode repeats over.

    SVG: period (0,1) with offsets clamped into it; COLR: period (min offset, max offset).
    """
    offs = np.array([s[0] for s in stops], float)
    cols = np.array([s[1] for s in stops], float)
    t = extend_t(np.asarray(t, float), mode, *period)
    out = np.zeros((len(t), 4))
    for k in range(4):
        out[:, k] = np.interp(t, offs, cols[:, k])
    return out


def linear_t(p0, p1, p2, q):
    p0 = np.array(p0, float)
    p1 = np.array(p1, float)
    p2 = np.array(p2, float)
    n = p2 - p0
    perp = np.array([n[1], -n[0]])
    d = p1 - p0
    if (perp @ perp) == 0:
        return np.full(len(q), np.nan)
    v = perp * (d @ perp) / (perp @ perp)  # projection of p1-p0 onto the perpendicular of p2-p0
    if (v @ v) == 0:
        return np.full(len(q), np.nan)
    return ((q - p0) @ v) / (v @ v)


def radial_t(c0, r0, c1, r1, q):
    """Two-point conical gradient: largest t with r(t) >= 0 and |q - c(t)| = r(t)."""
    c0 = np.array(c0, float)
    c1 = np.array(c1, float)
    cd = c1 - c0
    dr = r1 - r0
    pd = q - c0
    a = cd @ cd - dr * dr
    b = pd @ cd + r0 * dr
    c = (pd * pd).sum(1) - r0 * r0
    if abs(a) < 1e-12:
        with np.errstate(divide="ignore", invalid="ignore"):
            tt = c / (2 * b)
        ok = (r0 + tt * dr) >= 0
        return np.where(ok, tt, np.nan)
    disc = b * b - a * c
    ok = disc >= 0
    sq = np.sqrt(np.where(ok, disc, 0))
    t1 = (b + sq) / a
    t2 = (b - sq) / a
    hi = np.maximum(t1, t2)
    lo = np.minimum(t1, t2)
    return np.where(ok & ((r0 + hi * dr) >= 0), hi, np.where(ok & ((r0 + lo * dr) >= 0), lo, np.nan))


class Paint:
    """kind: 'solid' | 'linear' | 'radial' | 'sweep'.

    Gradients: geometry fields in the paint's own space, M maps that space to the comparison
    (font) space; stops [(offset, (colour, alpha))]; extend; period.
    `quanta`: {field: quantum} of the encoding the paint was read from (for the tolerance model).
    """

    def __init__(s, kind, **kw):
        s.kind = kind
        s.quanta = {}
        s.__dict__.update(kw)

    def with_transform(s, T):
        p = Paint(s.kind, **{k: v for k, v in s.__dict__.items() if k != "kind"})
        if s.kind != "solid":
            p.M = T @ s.M
            if hasattr(s, "Mpre"):
                p.Mpre = T @ s.Mpre
        return p

    def _stops(s, fg):
        stops = []
        for off, (col, a) in s.stops:
            rgb = fg if col[0] == "fg" else col[1]
            stops.append((off, (rgb[0] / 255, rgb[1] / 255, rgb[2] / 255, a)))
        return stops

    def tvals(s, pts, **override):
        M = override.pop("M", s.M)
        q = apply(np.linalg.inv(M), np.asarray(pts, float))
        g = dict(s.__dict__)
        g.update(override)
        if s.kind == "linear":
            return linear_t(g["p0"], g["p1"], g["p2"], q)
        if s.kind == "radial":
            return radial_t(g["c0"], g["r0"], g["c1"], g["r1"], q)
        raise ValueError(s.kind)

    def color_at_t(s, t, fg):
        return colorline(s._stops(fg), t, s.extend, s.period)

    def rgba(s, pts, fg=(10, 200, 30)):
        pts = np.asarray(pts, float)
        if s.kind == "solid":
            rgb = fg if s.color[0] == "fg" else s.color[1]
            return np.tile(np.array([rgb[0] / 255, rgb[1] / 255, rgb[2] / 255, s.alpha]), (len(pts), 1))
        t = s.tvals(pts)
        out = s.color_at_t(np.nan_to_num(t, nan=0.0), fg)
        out[np.isnan(t)] = 0
        return out

    def field_dt(s, pts):
        """Sum over encoded fields of |t(field + quantum/2) - t|: what rounding of the fields can do."""
        if s.kind == "solid" or not s.quanta:
            return np.zeros(len(pts))
        base = s.tvals(pts)
        tot = np.zeros(len(pts))

        def both(f):
            # the unrounded value lies up to half a quantum on either side of the stored one, and t is not symmetric in it
            return np.maximum(np.nan_to_num(np.abs(f(+1) - base), nan=0.0), np.nan_to_num(np.abs(f(-1) - base), nan=0.0))

        for name, q in s.quanta.items():
            if name == "G":  # decimal gradientTransform entries: M = Mpre @ G
                for (i, j) in ((0, 0), (1, 0), (0, 1), (1, 1), (0, 2), (1, 2)):

                    def f(sign, i=i, j=j):
                        G = s.G.copy()
                        G[i, j] += sign * q / 2
                        return s.tvals(pts, M=s.Mpre @ G)

                    tot += both(f)
                continue
            v = getattr(s, name)
            if isinstance(v, tuple):
                for i in range(len(v)):

                    def f(sign, i=i):
                        vv = list(v)
                        vv[i] += sign * q / 2
                        return s.tvals(pts, **{name: tuple(vv)})

                    tot += both(f)
            else:
                tot += both(lambda sign: s.tvals(pts, **{name: v + sign * q / 2}))
        return tot

    def describe(s):
        if s.kind == "solid":
            return {"kind": "solid", "color": s.color, "alpha": round(s.alpha, 4)}
        d = {"kind": s.kind, "extend": s.extend, "stops": [(round(o, 4), c[0][:3], round(c[1], 4)) for o, c in s.stops]}
        for k in ("p0", "p1", "p2", "c0", "r0", "c1", "r1"):
            if hasattr(s, k):
                d[k] = getattr(s, k)
        d["M"] = [round(float(x), 5) for x in (s.M[0, 0], s.M[1, 0], s.M[0, 1], s.M[1, 1], s.M[0, 2], s.M[1, 2])]
        return d


class Layer:
    """One painted leaf: closed polylines in comparison space, a Paint, the stack of enclosing
    opacity groups [(token, alpha)], `sigma`: largest singular value of the linear map that
    placed a *stored* outline (1 for sources), `err`: displacement bound from fixed-point fields."""

    def __init__(s, contours, paint, groups, sigma=1.0, err=0.0, nseg=0, ref=None, transformed=False):
        s.contours = contours
        s.paint = paint
        s.groups = tuple(groups)
        s.sigma = sigma
        s.err = err
        s.nseg = nseg
        s.ref = ref
        s.transformed = transformed


def fold_single_groups(layers):
    """A group that encloses exactly one leaf is equivalent to multiplying that leaf's alpha."""
    from collections import Counter

    # groups that enclose exactly the same leaves (a group whose only content is another group) are one group with
    # the product of the alphas
    members = {}
    for i, l in enumerate(layers):
        for tok, _ in l.groups:
            members.setdefault(tok, set()).add(i)
    by_set = {}
    for tok, m in members.items():
        by_set.setdefault(frozenset(m), []).append(tok)
    for toks in by_set.values():
        if len(toks) < 2:
            continue
        keep = None
        for l in layers:
            if not any(t in toks for t, _ in l.groups):
                continue
            new, prod, pos = [], 1.0, None
            for t, a in l.groups:
                if t in toks:
                    prod *= a
                    if pos is None:
                        pos = len(new)
                        keep = keep or t
                        new.append(None)
                else:
                    new.append((t, a))
            new[pos] = (keep, prod)
            l.groups = tuple(new)
    cnt = Counter(tok for l in layers for tok, _ in l.groups)
    for l in layers:
        keep = []
        for tok, a in l.groups:
            if cnt[tok] == 1:
                if l.paint.kind == "solid":
                    l.paint = Paint("solid", color=l.paint.color, alpha=l.paint.alpha * a)
                else:
                    p = l.paint.with_transform(np.eye(3))
                    p.stops = [(o, (c, al * a)) for o, (c, al) in l.paint.stops]
                    l.paint = p
            else:
                keep.append((tok, a))
        l.groups = tuple(keep)
    return layers
