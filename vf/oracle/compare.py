"""Display-list comparator and the tolerance model of DESIGN §2.4."""
import numpy as np

from . import geom
from .geom import bbox, dist_to, grid, hausdorff, winding

ALPHA_TOL = 1.5 / 255 + 0.0005
COL_TOL = 1.5 / 255
FGS = ((10, 200, 30), (200, 10, 130))


class Tol:
    """eps_out(layer) = base*max(1,sigma) + err + tau_seg*nseg (if a reuse transform may be involved)."""

    def __init__(self, upem, output="colr", tau_seg=0.0, truetype=True, extra=0.0):
        self.upem = upem
        self.output = output
        self.tau_seg = tau_seg
        self.extra = extra
        if output == "svg":
            self.base = 3.0
        else:
            self.base = 0.75 + (0.001 * upem if truetype else 0.0)

    def eps(self, cand_layer, ref_layer=None):
        e = self.base * max(1.0, cand_layer.sigma) + cand_layer.err + self.extra
        if ref_layer is not None:
            e += self.base * (max(1.0, ref_layer.sigma) - 1.0) + ref_layer.err
        # a reuse with the identity transform is not visible in the output, so the reuse allowance applies
        # whenever reuse is enabled
        if self.tau_seg:
            # picosvg accepts a deviation of `tolerance` per argument of every *relative* segment: it adds up
            # along the path, in both coordinates (factor 1.5 ~ sqrt(2) + interior of curves)
            e += 1.5 * self.tau_seg * max(cand_layer.nseg, ref_layer.nseg if ref_layer is not None else 0, 1)
        return e


def _grad_norm(paint, pts, h=0.25):
    """|grad t| of a gradient paint at pts (finite differences in comparison space)."""
    t0 = paint.tvals(pts)
    tx = paint.tvals(pts + np.array([h, 0.0]))
    ty = paint.tvals(pts + np.array([0.0, h]))
    g = np.sqrt(((tx - t0) / h) ** 2 + ((ty - t0) / h) ** 2)
    return t0, g


def _seam_candidates(paint, t):
    """For every stop offset (and period end) the parameter value nearest to t that maps onto it."""
    lo, hi = paint.period
    span = hi - lo
    offs = sorted({o for o, _ in paint.stops} | {lo, hi})
    out = []
    for o in offs:
        if paint.extend == "pad" or span <= 0:
            out.append(np.full_like(t, o))
        elif paint.extend == "repeat":
            k = np.round((t - o) / span)
            out.append(o + k * span)
        else:  # reflect
            k = np.round((t - o) / (2 * span))
            out.append(o + 2 * k * span)
            o2 = 2 * lo - o
            k = np.round((t - o2) / (2 * span))
            out.append(o2 + 2 * k * span)
    return out


def envelope(ref_paint, pts, dt, fg):
    """Channel-wise (min, max) of the reference colour over t in [t-dt, t+dt] at each point."""
    if ref_paint.kind == "solid":
        c = ref_paint.rgba(pts, fg)
        return c, c, np.zeros(len(pts), bool)
    t = ref_paint.tvals(pts)
    undefined = np.isnan(t)
    t = np.nan_to_num(t, nan=0.0)
    samples = [t + f * dt for f in np.linspace(-1, 1, 17)]
    for s in _seam_candidates(ref_paint, t):
        ok = np.abs(s - t) <= dt
        for eps in (-1e-9, 1e-9):
            samples.append(np.where(ok, s + eps, t))
    cols = np.stack([ref_paint.color_at_t(s, fg) for s in samples])
    return cols.min(0), cols.max(0), undefined


def compare_paint(ref, got, pts, eps_out, fg_list=FGS, stats=None):
    """Colour at the point: got.rgba(p) must lie in the reference envelope.  Returns (bad, info)."""
    if len(pts) == 0:
        return None, {"decisive": 0}
    dt = np.zeros(len(pts))
    if ref.kind != "solid":
        t0, g = _grad_norm(ref, pts)
        dt = np.nan_to_num(g, nan=1e9) * eps_out
        # the linear estimate is blind where the gradient of t vanishes although t bends sharply within eps_out (the
        # centre line of a radial gradient squeezed onto a bar thinner than the outline tolerance): take the actual
        # change of t under a displacement of eps_out in 8 directions as well
        for k in range(8):
            u = np.array([np.cos(k * np.pi / 4), np.sin(k * np.pi / 4)]) * eps_out
            dt = np.maximum(dt, np.nan_to_num(np.abs(ref.tvals(pts + u) - t0), nan=1e9))
        dt = dt + ref.field_dt(pts)
    if got.kind != "solid":
        dt = dt + got.field_dt(pts)
        if ref.kind == "solid":
            dt = dt * 0  # candidate must be constant = ref anyway
    dt = dt + 0.0006  # stop offsets are themselves quantised (3 decimals in SVG, F2Dot14 in COLR)
    decisive = dt <= 0.15
    info = {"decisive": int(decisive.sum()), "points": len(pts), "max_dt_allow": float(dt[decisive].max()) if decisive.any() else None}
    if not decisive.any():
        return None, info
    p = pts[decisive]
    d = dt[decisive]
    worst = 0.0
    bad = None
    for fg in fg_list:
        lo, hi, undef_r = envelope(ref, p, d, fg)
        c = got.rgba(p, fg)
        if got.kind != "solid":
            undef_g = np.isnan(got.tvals(p))
        else:
            undef_g = np.zeros(len(p), bool)
        both = ~(undef_r | undef_g)
        # a gradient that is undefined at a point paints nothing there.  Near the edge of a focal cone the two sides may
        # disagree about that at a few points; a candidate (or reference) that is undefined on a large part of what
        # the other side paints visibly - e.g. a degenerate gradient, r0 = r1 = 0 - is a different picture
        one_sided = (undef_r ^ undef_g) & np.where(undef_r, c[:, 3] > COL_TOL, hi[:, 3] > COL_TOL)  # visible on the side that is defined
        if bad is None and one_sided.sum() >= 4 and one_sided.sum() > 0.25 * len(p):
            i = int(np.argmax(one_sided))
            bad = {
                "excess": 1.0,
                "point": [round(float(p[i][0]), 2), round(float(p[i][1]), 2)],
                "undefined_side": "candidate" if undef_g[i] else "reference",
                "points_painted_on_one_side_only": int(one_sided.sum()),
                "points": int(len(p)),
                "fg": fg,
            }
            worst = max(worst, 1.0)
            break
        # where alpha is ~0 on both sides rgb is irrelevant
        vis = (hi[:, 3] > COL_TOL) | (c[:, 3] > COL_TOL)
        over = np.maximum(c - hi, lo - c)
        over[:, :3][~vis] = 0
        over = over[both]
        if len(over):
            m = float(over.max())
            worst = max(worst, m)
            if m > COL_TOL + (ALPHA_TOL - COL_TOL) * 0 + 1e-9:
                i = int(np.argmax(over.max(1)))
                pp = p[both][i]
                bad = {
                    "excess": round(m, 4),
                    "point": [round(float(pp[0]), 2), round(float(pp[1]), 2)],
                    "got_rgba": [round(float(x), 4) for x in c[both][i]],
                    "ref_lo": [round(float(x), 4) for x in lo[both][i]],
                    "ref_hi": [round(float(x), 4) for x in hi[both][i]],
                    "fg": fg,
                }
                break
    info["max_colour_excess"] = worst
    return bad, info


def classify_extend_interval(ref, got, pts, eps):
    """Known finding F9: SVG repeats/reflects a gradient over offsets [0,1] (padding with the end
    stops), COLR over [first stop offset, last stop offset].  The excess is attributed to it only
    if re-evaluating the side read from COLR with the SVG interval makes every point agree."""
    import copy

    cand = None
    for side in ("got", "ref"):
        p = got if side == "got" else ref
        if p.kind != "solid" and p.extend != "pad" and tuple(p.period) != (0.0, 1.0) and (p.period[0] > 1e-6 or p.period[1] < 1 - 1e-6):
            cand = side
            break
    if cand is None:
        return None
    # F9 is about stops *copied verbatim* between the two models: both sides must begin and end their colour line at
    # the same offsets (a side that dropped or moved an end stop is something else)
    try:
        ra, rb, ga, gb = ref.stops[0][0], ref.stops[-1][0], got.stops[0][0], got.stops[-1][0]
    except (AttributeError, IndexError, TypeError):
        return None
    if abs(ra - ga) > 1e-3 or abs(rb - gb) > 1e-3:  # (generated SVG rounds offsets to 3 decimals)
        return None
    q = copy.copy(got if cand == "got" else ref)
    q.period = (0.0, 1.0)
    bad, _ = compare_paint(ref if cand == "got" else q, q if cand == "got" else got, pts, eps)
    return "F9-extend-interval" if bad is None else None


def _stops_equal(a, b):
    if len(a.stops) != len(b.stops):
        return None
    for (oa, (ca, aa)), (ob, (cb, ab)) in zip(a.stops, b.stops):
        if abs(oa - ob) > 0.0006:
            return f"stop offset {oa} vs {ob}"
        if ca[0] != cb[0] or (ca[0] == "rgb" and max(abs(x - y) for x, y in zip(ca[1], cb[1])) > 1):
            return f"stop colour {ca} vs {cb}"
        if abs(aa - ab) > ALPHA_TOL:
            return f"stop alpha {aa} vs {ab}"
    if a.extend != b.extend:
        return f"extend {a.extend} vs {b.extend}"
    return ""


def negligible(layer):
    """paints nothing visible: no contours, or an extent below one font unit in both directions (e.g. the sliver a
    clip leaves behind, which vanishes when coordinates are rounded)"""
    if not layer.contours:
        return True
    b = bbox(layer.contours)
    return (b[2] - b[0]) < 1.0 and (b[3] - b[1]) < 1.0


def pair_layers(ref_layers, got_layers):
    """z-ordered pairs of layers that paint something; None when the counts cannot be reconciled."""
    if len(ref_layers) == len(got_layers):
        return [(r, g) for r, g in zip(ref_layers, got_layers) if not (negligible(r) and negligible(g))]
    r2 = [l for l in ref_layers if not negligible(l)]
    g2 = [l for l in got_layers if not negligible(l)]
    if len(r2) == len(g2):
        return list(zip(r2, g2))
    r3 = [l for l in ref_layers if l.contours]
    g3 = [l for l in got_layers if l.contours]
    if len(r3) == len(g3):
        return list(zip(r3, g3))
    return None


def compare_layers(ref_layers, got_layers, tol, ngrid=24, check_palette=True):
    """Layerwise comparison.  Returns (problems, stats)."""
    problems = []
    stats = {"layers": len(ref_layers), "max_h_over_eps": 0.0, "max_h": 0.0, "gradient_layers": 0, "grad_decisive_min": None, "max_colour_excess": 0.0, "undecided_gradient_layers": 0}
    pairs = pair_layers(ref_layers, got_layers)
    if pairs is not None:
        ref_layers = [p[0] for p in pairs]
        got_layers = [p[1] for p in pairs]
    else:
        ref_layers = [l for l in ref_layers if l.contours]
        got_layers = [l for l in got_layers if l.contours]
    if len(ref_layers) != len(got_layers):
        problems.append({"what": "layer count", "ref": len(ref_layers), "got": len(got_layers)})
        return problems, stats
    # group structure: stacks must correspond
    tokmap = {}
    for i, (r, g) in enumerate(zip(ref_layers, got_layers)):
        ra = [a for _, a in r.groups]
        ga = [a for _, a in g.groups]
        if len(ra) != len(ga) or any(abs(x - y) > ALPHA_TOL for x, y in zip(ra, ga)):
            problems.append({"what": "group alpha stack", "layer": i, "ref": ra, "got": ga})
            continue
        for (tr, _), (tg, _) in zip(r.groups, g.groups):
            # one-to-one: a group must not be split, and two groups must not be merged into one
            if tokmap.setdefault(("r", tr), tg) != tg or tokmap.setdefault(("g", tg), tr) != tr:
                problems.append({"what": "group structure", "layer": i})
    for i, (r, g) in enumerate(zip(ref_layers, got_layers)):
        eps = tol.eps(g, r)
        step = max(1.0, tol.upem / 400.0)
        if not r.contours or not g.contours:
            problems.append({"what": "layer painted on one side only", "layer": i, "ref_bbox": bbox(r.contours), "got_bbox": bbox(g.contours)})
            continue
        H = hausdorff(r.contours, g.contours, step=step)
        stats["max_h"] = max(stats["max_h"], H)
        stats["max_h_over_eps"] = max(stats["max_h_over_eps"], H / eps)
        if H > eps:
            problems.append({"what": "outline displaced", "layer": i, "hausdorff": round(H, 3), "eps_out": round(eps, 3), "sigma": round(g.sigma, 3), "ref_bbox": bbox(r.contours), "got_bbox": bbox(g.contours), "got_ref": g.ref})
            continue
        bb = bbox(r.contours)
        pts = grid(bb, ngrid)
        inside_r = winding(r.contours, pts) != 0
        inside_g = winding(g.contours, pts) != 0
        far = (dist_to(r.contours, pts) > eps + 0.5) & (dist_to(g.contours, pts) > eps + 0.5)
        if (inside_r != inside_g)[far].any():
            k = int(np.argmax((inside_r != inside_g) & far))
            problems.append({"what": "fill mismatch (inside/outside)", "layer": i, "point": [float(pts[k][0]), float(pts[k][1])], "ref_inside": bool(inside_r[k])})
            continue
        ip = pts[inside_r & inside_g & far]
        if len(ip) < 12:
            # a layer too small to have points well away from its outline: the paint functions are defined everywhere
            # and the envelope already allows for a displacement of eps, so points near the outline decide as well
            ip = pts[inside_r & inside_g]
            if len(ip) < 12:
                ip = pts[inside_r | inside_g]
            if len(ip) < 12:
                cx_, cy_ = (bb[0] + bb[2]) / 2, (bb[1] + bb[3]) / 2
                hw, hh = max(0.25, (bb[2] - bb[0]) / 4), max(0.25, (bb[3] - bb[1]) / 4)
                ip = np.array([[cx_ + i_ * hw, cy_ + j_ * hh] for i_ in (-1, -0.5, 0, 0.5, 1) for j_ in (-1, 0, 1)])
        if r.paint.kind != "solid" or g.paint.kind != "solid":
            stats["gradient_layers"] += 1
        if r.paint.kind == "solid" and g.paint.kind == "solid":
            rc, gc = r.paint.color, g.paint.color
            if rc[0] != gc[0] or (rc[0] == "rgb" and max(abs(x - y) for x, y in zip(rc[1], gc[1])) > 1):
                problems.append({"what": "solid colour", "layer": i, "ref": rc, "got": gc})
            elif abs(r.paint.alpha - g.paint.alpha) > ALPHA_TOL:
                problems.append({"what": "solid alpha", "layer": i, "ref": r.paint.alpha, "got": g.paint.alpha})
            elif check_palette and rc[2] is not None and gc[2] is not None and rc[2] != gc[2]:
                problems.append({"what": "palette index", "layer": i, "ref": rc[2], "got": gc[2]})
            continue
        bad, info = compare_paint(r.paint, g.paint, ip, eps)
        stats["max_colour_excess"] = max(stats["max_colour_excess"], info.get("max_colour_excess", 0.0))
        dec = info.get("decisive", 0)
        if dec < 12:
            stats["undecided_gradient_layers"] += 1
        stats["grad_decisive_min"] = dec if stats["grad_decisive_min"] is None else min(stats["grad_decisive_min"], dec)
        if bad:
            bad.update({"what": "colour at point", "layer": i, "ref_paint": r.paint.describe(), "got_paint": g.paint.describe()})
            bad["mechanism"] = classify_extend_interval(r.paint, g.paint, ip, eps)
            e_svg = max(getattr(g, "err_svg", 0.0), getattr(r, "err_svg", 0.0))
            if bad["mechanism"] is None and e_svg > 0:
                # known finding F8: the 3-decimal rounding of an emitted <use>/<g> matrix displaces everything drawn
                # through it, the layer's gradient included.  Attributed to it only if widening the envelope by that
                # displacement bound makes every point agree.
                bad2, _ = compare_paint(r.paint, g.paint, ip, eps + e_svg)
                if bad2 is None:
                    bad["mechanism"] = "F8-svg-transform-3-decimals"
                    bad["err_svg"] = round(e_svg, 3)
            problems.append(bad)
            continue
        if r.paint.kind == g.paint.kind and r.paint.kind != "solid":
            se = _stops_equal(r.paint, g.paint)
            if se:
                problems.append({"what": "colour line content: " + se, "layer": i})
    return problems, stats


def max_matching(adj, n_right):
    """Maximum bipartite matching (augmenting paths). adj[i] = admissible right nodes of left node i."""
    match_r = [-1] * n_right

    def try_(i, seen):
        for j in adj[i]:
            if j in seen:
                continue
            seen.add(j)
            if match_r[j] == -1 or try_(match_r[j], seen):
                match_r[j] = i
                return True
        return False

    for i in range(len(adj)):
        try_(i, set())
    left = {i: j for j, i in enumerate(match_r) if i != -1}
    return left
