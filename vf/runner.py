"""bin/check <ID> [--tier quick|thorough] [--replay <dir>]

Verdicts: exit 0 held on what was observed; exit 1 + `VIOLATION property=<id> replay=<path>`;
exit 2 + `INCONCLUSIVE property=<id> reason=...` (deciding monitor not reached / watchdog).
"""
import argparse
import importlib
import json
import os
import shutil
import sys
import time
from collections import Counter

from vf import common


def _replay(mod, path):
    case = json.load(open(os.path.join(path, "case.json")))
    if hasattr(mod, "worker_init"):
        mod.worker_init()
    res = mod.run_case(case)
    print(json.dumps(res, indent=1, default=str)[:20000])
    bad = [v for v in res.get("violations", [])]
    known = common.known_mechanisms(mod.ID)
    unlisted = [v for v in bad if v.get("mechanism") not in known]
    for v in unlisted:
        print(f"VIOLATION property={mod.ID} replay={path}")
    return 1 if unlisted else 0


def main(argv=None):
    ap = argparse.ArgumentParser()
    ap.add_argument("id")
    ap.add_argument("--tier", default=os.environ.get("VERIF_TIER", "quick"), choices=["quick", "thorough"])
    ap.add_argument("--replay")
    ap.add_argument("--limit", type=int, default=0, help="debug: only the first N cases")
    ap.add_argument("--only", help="debug: only this case id")
    ap.add_argument("--grep", help="debug: only case ids matching this regex")
    args = ap.parse_args(argv)
    common.ensure_deps()
    mod = importlib.import_module("vf.checks." + args.id.lower())
    if args.replay:
        return _replay(mod, args.replay)

    t0 = time.time()
    seed = common.seed()
    tier = args.tier
    cases = mod.plan(tier, seed)
    for c in cases:
        c.setdefault("tier", tier)
        c.setdefault("seed", seed)
    if args.only:
        cases = [c for c in cases if c["id"] == args.only]
    if args.grep:
        import re

        cases = [c for c in cases if re.search(args.grep, c["id"])]
    if args.limit:
        cases = cases[: args.limit]
    timeout = getattr(mod, "TIMEOUT", {"quick": 1500, "thorough": 6 * 3600})[tier]
    if getattr(mod, "INLINE", False):
        if hasattr(mod, "worker_init"):
            mod.worker_init()
        from vf.worker import run_one

        results, lost = [run_one(mod, c) for c in cases], []
    else:
        results, lost = common.run_sharded(mod.ID, cases, nproc=getattr(mod, "NPROC", None), timeout=timeout)

    counters, maxes, tags = Counter(), {}, Counter()
    keys = set()
    violations, errors, samples = [], [], []
    by_id = {c["id"]: c for c in cases}
    for r in results:
        for k, v in (r.get("counters") or {}).items():
            counters[k] += v
        for k, v in (r.get("maxes") or {}).items():
            if v is not None and (k not in maxes or v > maxes[k]):
                maxes[k] = v
        for t in r.get("tags") or []:
            tags[t] += 1
        if r.get("nontrivial") and r.get("key"):
            keys.add(r["key"])
        for k in r.get("keys") or []:
            keys.add(k)
        if r.get("error"):
            errors.append({"id": r["id"], "error": r["error"][-800:]})
        for v in r.get("violations") or []:
            v = dict(v)
            v["case"] = r["id"]
            violations.append(v)
        if r.get("sample") is not None and len(samples) < 4:
            samples.append(r["sample"])

    agg = dict(counters=counters, maxes=maxes, tags=tags, keys=keys, results=results, cases=cases, tier=tier, seed=seed)
    extra_cov, inconclusive = {}, []
    if hasattr(mod, "finish"):
        fin = mod.finish(agg) or {}
        extra_cov = fin.get("coverage", {})
        inconclusive = list(fin.get("inconclusive", []))
        for v in fin.get("violations", []):
            violations.append(v)
        if fin.get("samples"):
            samples = fin["samples"] + samples
    if errors:
        inconclusive.append(f"{len(errors)} case(s) ended in a harness error, first: {errors[0]['id']}: {errors[0]['error'][-300:]}")
    if lost and len(lost) > max(1, len(cases) // 20):
        inconclusive.append(f"{len(lost)} of {len(cases)} cases returned no result (worker death / watchdog)")
    if not results:
        inconclusive.append("no case produced a result")

    # classify violations against the committed known-findings list (keyed by mechanism)
    known = common.known_mechanisms(mod.ID)
    known_hits = Counter()
    unlisted = []
    for v in violations:
        m = v.get("mechanism")
        if m and m in known:
            known_hits[m] += 1
        else:
            unlisted.append(v)

    replay_root = common.out_dir("replay") / mod.ID
    if replay_root.exists():
        shutil.rmtree(replay_root, ignore_errors=True)
    printed = 0
    for v in unlisted:
        cid = str(v.get("case", "finish"))
        d = replay_root / cid.replace("/", "_")
        d.mkdir(parents=True, exist_ok=True)
        (d / "case.json").write_text(json.dumps(by_id.get(v.get("case"), {"id": cid}), indent=1, default=str))
        wf = d / "witness.json"
        prev = json.loads(wf.read_text()) if wf.exists() else []
        prev.append(v)
        wf.write_text(json.dumps(prev, indent=1, default=str))
        if printed < 25:
            print(f"VIOLATION property={mod.ID} replay={d}  # {v.get('what','')[:200]}")
            printed += 1
    if len(unlisted) > printed:
        print(f"# ... {len(unlisted)-printed} more violations recorded under {replay_root}")
    for m, n in sorted(known_hits.items()):
        print(f"KNOWN-FINDING: property={mod.ID} {m}: {known[m].get('what','')} (observed {n}x in this run)")

    # a case of a chunked check (C10, C11, C15, C16) evaluates many inputs: it reports them in "keys" (one per
    # distinct non-trivial input) and, when it counts them, in "evaluated"
    evaluations = sum(int(r["evaluated"]) if r.get("evaluated") else max(1, len(r.get("keys") or [])) for r in results)
    coverage = {
        "cases_run": len(results),
        "evaluations": evaluations,
        "distinct_nontrivial": len(keys),
        "rule": getattr(mod, "RULE", ""),
        "samples": samples[:6] or [{"note": "no sample recorded"}],
        "counters": dict(sorted(counters.items())),
        "maxima": {k: (round(v, 5) if isinstance(v, float) else v) for k, v in sorted(maxes.items())},
        "case_classes": dict(sorted(tags.items())),
        "lost_cases": lost[:10],
        "lost_count": len(lost),
        "harness_errors": errors[:5],
        "known_finding_hits": dict(known_hits),
        "inconclusive_reasons": inconclusive,
        "slowest_cases_s": sorted(((r.get("wall", 0), r["id"]) for r in results), reverse=True)[:5],
    }
    coverage.update(extra_cov)
    wall = time.time() - t0
    # schema demands >=1 evaluations and >=2 distinct for exploration levels: if we did not get
    # there the run is inconclusive by construction and says so.
    if evaluations < 1 or len(keys) < 2:
        inconclusive.append(f"too little observed: evaluations={evaluations} distinct_nontrivial={len(keys)}")
        coverage["inconclusive_reasons"] = inconclusive
    try:
        common.write_evidence(mod.ID, tier, seed, getattr(mod, "LEVEL", "exploration"), coverage, wall, len(unlisted), getattr(mod, "ASSUMPTIONS", []))
    except Exception as e:  # evidence not schema-valid: say so loudly, never silently
        print(f"EVIDENCE-ERROR property={mod.ID} {type(e).__name__}: {str(e)[:300]}")
        inconclusive.append("evidence failed schema validation")

    print(
        f"{mod.ID} tier={tier} seed={seed} cases={len(cases)} results={len(results)} distinct_nontrivial={len(keys)} "
        f"violations={len(unlisted)} known={sum(known_hits.values())} lost={len(lost)} errors={len(errors)} wall={wall:.1f}s"
    )
    if counters:
        print("  counters: " + ", ".join(f"{k}={v}" for k, v in sorted(counters.items())))
    if maxes:
        print("  maxima:   " + ", ".join(f"{k}={v:.4g}" if isinstance(v, float) else f"{k}={v}" for k, v in sorted(maxes.items())))
    if unlisted:
        return 1
    if inconclusive:
        for r in inconclusive:
            print(f"INCONCLUSIVE property={mod.ID} reason={r}")
        return 2
    return 0


if __name__ == "__main__":
    sys.exit(main())
