"""An external glyph-map generator for C20: same rows as nanoemoji.write_glyphmap but glyph names prefixed 'alt'.
Invoked by ninja as: python -m vf.tools.alt_glyphmap -v 0 --output_file OUT @OUT.rsp"""
import csv
import io
import re
import shlex
import sys
from pathlib import Path


RENAME_SEQUENCES = False


def main(argv):
    out = None
    files = []
    i = 1
    while i < len(argv):
        a = argv[i]
        if a == "--output_file":
            out = argv[i + 1]
            i += 2
        elif a == "-v":
            i += 2
        elif a.startswith("@"):
            files += shlex.split(open(a[1:]).read())
            i += 1
        else:
            files.append(a)
            i += 1
    by_stem = {}
    for f in files:
        p = Path(f)
        by_stem.setdefault(p.stem, [None, None])[0 if p.suffix == ".svg" else 1] = p
    rows = []
    for stem, (svg, png) in by_stem.items():
        cps = [int(x, 16) for x in re.findall(r"(?:^emoji_u|[-_])([0-9a-fA-F]+)", stem)] or [int(x, 16) for x in re.findall(r"[0-9a-fA-F]+", stem)]
        if len(cps) == 1 or RENAME_SEQUENCES:
            name = "alt" + "_".join("%x" % c for c in cps)
        else:
            from nanoemoji.glyph import glyph_name

            name = glyph_name(cps)
        buf = io.StringIO()
        csv.writer(buf, lineterminator="").writerow([svg or "", png or "", name] + ["%04x" % c for c in cps])
        rows.append(buf.getvalue())
    with open(out, "w") as fh:
        fh.write("\n".join(rows) + "\n")


if __name__ == "__main__":
    main(sys.argv)
