"""Like alt_glyphmap but also renames the glyphs of multi-codepoint sequences (exhibits finding F18)."""
import sys

from vf.tools import alt_glyphmap

if __name__ == "__main__":
    alt_glyphmap.RENAME_SEQUENCES = True
    alt_glyphmap.main(sys.argv)
