"""Fonts with layout tables of every lookup type/format: feaLib-compiled feature text + hand-assembled
otTables subtables for the formats feaLib never emits (Context / ChainContext formats 1-3 both GSUB/GPOS)."""
import io


def sq(n):
    from fontTools.pens.ttGlyphPen import TTGlyphPen

    p = TTGlyphPen(None)
    p.moveTo((0, 0))
    p.lineTo((0, 100 + n))
    p.lineTo((100 + 2 * n, 100 + n))
    p.lineTo((100 + 2 * n, 0))
    p.closePath()
    return p.glyph()


def sq_charstring(n, width, cff2=False):
    from fontTools.pens.t2CharStringPen import T2CharStringPen

    p = T2CharStringPen(None if cff2 else width, None, CFF2=cff2)
    p.moveTo((0, 0))
    p.lineTo((0, 100 + n))
    p.lineTo((100 + 2 * n, 100 + n))
    p.lineTo((100 + 2 * n, 0))
    p.closePath()
    return p.getCharString()


def feature_text(r, bases, ligs, marks, use_ext):
    """random feature file over the given glyph partitions"""
    pick = lambda pool, k: r.sample(pool, min(k, len(pool)))
    top = pick(marks, max(1, len(marks) // 2))
    bot = [m for m in marks if m not in top] or top[:1]
    L = ["languagesystem DFLT dflt;", "languagesystem latn dflt;"]
    L.append(f"markClass [{' '.join(top)}] <anchor {r.randint(0,50)} {r.randint(400,600)}> @TOP;")
    if bot != top[:1] or True:
        L.append(f"markClass [{' '.join(bot)}] <anchor {r.randint(0,50)} {-r.randint(20,80)}> @BOT;")
    att = pick(bases, 3)
    car = pick(ligs, 2)
    L.append("table GDEF {")
    L.append(f"  GlyphClassDef [{' '.join(bases)}], [{' '.join(ligs)}], [{' '.join(marks)}], ;")
    for a in att:
        L.append(f"  Attach {a} {' '.join(str(x) for x in sorted(r.sample(range(1, 9), r.randint(1, 3))))};")
    for c_ in car:
        L.append(f"  LigatureCaretByPos {c_} {' '.join(str(x) for x in sorted(r.sample(range(10, 900), r.randint(1, 3))))};")
    L.append("} GDEF;")
    ext = " useExtension" if use_ext else ""
    # GPOS
    sp = pick(bases, 4)
    L.append(f"lookup SP1{ext} {{ pos [{' '.join(sp[:3])}] {-r.randint(5,60)}; }} SP1;")
    L.append(f"lookup SP2 {{ " + " ".join(f"pos {g} <{r.randint(-9,9)} {r.randint(-9,9)} {r.randint(-50,50)} 0>;" for g in pick(bases, 4)) + " } SP2;")
    pp = []
    firsts = pick(bases, 4)
    for f in firsts:
        for s in pick(bases, r.randint(1, 3)):
            pp.append(f"pos {f} {s} {-r.randint(5,90)};")
    L.append("lookup PP1 { " + " ".join(pp) + " } PP1;")
    # a second lookup with exactly the same content (as the same kerning written under two scripts gives): equal by
    # value, distinct in the font
    L.append("lookup PP1B { " + " ".join(pp) + " } PP1B;")
    L.append(f"lookup PP2{ext} {{ pos [{' '.join(pick(bases,3))}] [{' '.join(pick(bases,3))}] {-r.randint(5,90)}; pos [{' '.join(pick(bases,2))}] [{' '.join(pick(bases,2))}] {r.randint(5,90)}; }} PP2;")
    L.append("lookup CUR { " + " ".join(f"pos cursive {g} <anchor {r.randint(0,9)} {r.randint(0,9)}> <anchor {r.randint(90,110)} {r.randint(0,9)}>;" for g in pick(bases, 3)) + f" pos cursive {pick(bases,1)[0]} <anchor NULL> <anchor 7 7>;" + " } CUR;")
    L.append("lookup MB { " + " ".join(f"pos base {g} <anchor {r.randint(200,300)} {r.randint(500,700)}> mark @TOP <anchor {r.randint(200,300)} {-r.randint(5,40)}> mark @BOT;" for g in pick(bases, 4)) + " } MB;")
    L.append("lookup ML { " + " ".join(f"pos ligature {g} <anchor {r.randint(50,150)} 600> mark @TOP ligComponent <anchor {r.randint(250,350)} 600> mark @TOP;" for g in pick(ligs, 3)) + " } ML;")
    L.append("lookup MM { " + " ".join(f"pos mark {g} <anchor {r.randint(0,9)} {r.randint(650,750)}> mark @TOP;" for g in pick(top, 2)) + " } MM;")
    # GSUB
    a, b = pick(bases, 6), pick(bases, 6)
    L.append("lookup SS { " + " ".join(f"sub {x} by {y};" for x, y in zip(dict.fromkeys(a), b)) + " } SS;")
    L.append("lookup MS { " + " ".join(f"sub {x} by {' '.join(pick(bases, r.randint(2,3)))};" for x in dict.fromkeys(pick(ligs, 3))) + " } MS;")
    L.append(f"lookup AS{ext} {{ " + " ".join(f"sub {x} from [{' '.join(pick(bases, r.randint(2,4)))}];" for x in dict.fromkeys(pick(bases, 3))) + " } AS;")
    lg = []
    seen = set()
    for lig in pick(ligs, 4):
        comp = tuple(pick(bases, r.randint(2, 3)))
        if comp in seen:
            continue
        seen.add(comp)
        lg.append(f"sub {' '.join(comp)} by {lig};")
    L.append("lookup LG { " + " ".join(lg) + " } LG;")
    t1, t2 = pick(bases, 2)
    ext2 = " useExtension" if (use_ext and r.random() < 0.7) else ""  # Extension-wrapped lookups whose subtables carry coverage-indexed arrays
    L.append(f"lookup CH{ext2} {{ sub {pick(bases,1)[0]} {t1}' lookup SS {pick(bases,1)[0]}; sub [{' '.join(pick(bases,3))}]' lookup SS [{' '.join(pick(bases,2))}]; }} CH;")
    rv = pick(bases, 3)
    rcov = list(dict.fromkeys(pick(bases, r.randint(3, 5))))  # several covered glyphs, each with its own substitute
    rsubst = [pick(bases, 1)[0] for _ in rcov]
    L.append(f"lookup RV{ext2} {{ rsub {rv[0]} [{' '.join(rcov)}]' {rv[2]} by [{' '.join(rsubst)}]; rsub {rv[0]} {pick([g for g in bases if g != rv[1]],1)[0]}' {rv[2]} by {pick(bases,1)[0]}; }} RV;")
    L.append(f"lookup CHP{ext2} {{ pos {pick(bases,1)[0]} {t2}' lookup SP1 {pick(bases,1)[0]}; }} CHP;")
    L.append("feature kern { lookup SP1; lookup SP2; lookup PP1; lookup PP2; lookup CHP; } kern;")
    L.append("feature dist { lookup PP1B; } dist;")
    L.append("feature curs { lookup CUR; } curs;")
    L.append("feature mark { lookup MB; lookup ML; } mark;")
    L.append("feature mkmk { lookup MM; } mkmk;")
    L.append("feature ss01 { lookup SS; } ss01;")
    L.append("feature ccmp { lookup MS; lookup LG; } ccmp;")
    L.append("feature salt { lookup AS; } salt;")
    L.append("feature calt { lookup CH; lookup RV; } calt;")
    return "\n".join(L)


def _cov(font, glyphs):
    from fontTools.ttLib.tables import otTables as ot

    c = ot.Coverage()
    c.glyphs = sorted(set(glyphs), key=font.getGlyphID)
    return c


def _classdef(mapping):
    from fontTools.ttLib.tables import otTables as ot

    cd = ot.ClassDef()
    cd.classDefs = dict(mapping)
    return cd


def add_handmade_context_lookups(font, r, bases):
    """Append lookups with Context / ChainContext subtables of formats 1, 2 and 3 to GSUB and GPOS."""
    from fontTools.ttLib.tables import otTables as ot

    made = []
    for tag, kind in (("GSUB", "Sub"), ("GPOS", "Pos")):
        table = font[tag].table
        ll = table.LookupList
        # a simple nested lookup (index 0 exists in both tables: SP1 / SS or similar)
        nested = 0
        tname = "Subst" if kind == "Sub" else "Pos"
        Rec = ot.SubstLookupRecord if kind == "Sub" else ot.PosLookupRecord
        rec_attr = "SubstLookupRecord" if kind == "Sub" else "PosLookupRecord"
        cnt_attr = "SubstCount" if kind == "Sub" else "PosCount"

        def rec(idx):
            x = Rec()
            x.SequenceIndex = idx
            x.LookupListIndex = nested
            return x

        def set_recs(rule, n=1):
            setattr(rule, rec_attr, [rec(0)][:n])
            setattr(rule, cnt_attr, len(getattr(rule, rec_attr)))

        subtables = []
        # ---- Context format 1
        st = getattr(ot, "Context" + tname)()
        st.Format = 1
        firsts = r.sample(bases, min(4, len(bases)))
        st.Coverage = _cov(font, firsts)
        sets = []
        for g in st.Coverage.glyphs:
            rs = getattr(ot, kind + "RuleSet")()
            rules = []
            for _ in range(r.randint(1, 2)):
                rule = getattr(ot, kind + "Rule")()
                rule.Input = r.sample(bases, r.randint(1, 2))
                rule.GlyphCount = len(rule.Input) + 1
                set_recs(rule)
                rules.append(rule)
            setattr(rs, kind + "Rule", rules)
            setattr(rs, kind + "RuleCount", len(rules))
            sets.append(rs)
        setattr(st, kind + "RuleSet", sets)
        setattr(st, kind + "RuleSetCount", len(sets))
        subtables.append(st)
        # ---- Context format 2
        st = getattr(ot, "Context" + tname)()
        st.Format = 2
        members = r.sample(bases, min(6, len(bases)))
        cd = {g: 1 + (i % 2) for i, g in enumerate(members)}
        st.Coverage = _cov(font, members[:4])
        st.ClassDef = _classdef(cd)
        csets = [None]
        for cls in (1, 2):
            cs = getattr(ot, kind + "ClassSet")()
            rule = getattr(ot, kind + "ClassRule")()
            rule.Class = [r.choice([1, 2])]
            rule.GlyphCount = 2
            set_recs(rule)
            setattr(cs, kind + "ClassRule", [rule])
            setattr(cs, kind + "ClassRuleCount", 1)
            csets.append(cs)
        setattr(st, kind + "ClassSet", csets)
        setattr(st, kind + "ClassSetCount", len(csets))
        subtables.append(st)
        # ---- Context format 3
        st = getattr(ot, "Context" + tname)()
        st.Format = 3
        st.Coverage = [_cov(font, r.sample(bases, r.randint(2, 4))) for _ in range(2)]
        st.GlyphCount = 2
        set_recs(st)
        subtables.append(st)
        # ---- ChainContext format 1
        st = getattr(ot, "ChainContext" + tname)()
        st.Format = 1
        st.Coverage = _cov(font, r.sample(bases, min(4, len(bases))))
        sets = []
        for g in st.Coverage.glyphs:
            rs = getattr(ot, "Chain" + kind + "RuleSet")()
            rule = getattr(ot, "Chain" + kind + "Rule")()
            rule.Backtrack = r.sample(bases, 1)
            rule.Input = r.sample(bases, 1)
            rule.LookAhead = r.sample(bases, r.randint(0, 2))
            rule.BacktrackGlyphCount, rule.InputGlyphCount, rule.LookAheadGlyphCount = len(rule.Backtrack), len(rule.Input) + 1, len(rule.LookAhead)
            set_recs(rule)
            setattr(rs, "Chain" + kind + "Rule", [rule])
            setattr(rs, "Chain" + kind + "RuleCount", 1)
            sets.append(rs)
        setattr(st, "Chain" + kind + "RuleSet", sets)
        setattr(st, "Chain" + kind + "RuleSetCount", len(sets))
        subtables.append(st)
        # ---- ChainContext format 2
        st = getattr(ot, "ChainContext" + tname)()
        st.Format = 2
        members = r.sample(bases, min(6, len(bases)))
        st.Coverage = _cov(font, members[:3])
        st.BacktrackClassDef = _classdef({g: 1 for g in r.sample(bases, 2)})
        st.InputClassDef = _classdef({g: 1 + (i % 2) for i, g in enumerate(members)})
        st.LookAheadClassDef = _classdef({g: 1 for g in r.sample(bases, 3)})
        csets = [None]
        for cls in (1, 2):
            cs = getattr(ot, "Chain" + kind + "ClassSet")()
            rule = getattr(ot, "Chain" + kind + "ClassRule")()
            rule.Backtrack, rule.Input, rule.LookAhead = [1], [r.choice([1, 2])], [1]
            rule.BacktrackGlyphCount, rule.InputGlyphCount, rule.LookAheadGlyphCount = 1, 2, 1
            set_recs(rule)
            setattr(cs, "Chain" + kind + "ClassRule", [rule])
            setattr(cs, "Chain" + kind + "ClassRuleCount", 1)
            csets.append(cs)
        setattr(st, "Chain" + kind + "ClassSet", csets)
        setattr(st, "Chain" + kind + "ClassSetCount", len(csets))
        subtables.append(st)
        # ---- ChainContext format 3
        st = getattr(ot, "ChainContext" + tname)()
        st.Format = 3
        st.BacktrackCoverage = [_cov(font, r.sample(bases, r.randint(1, 3)))]
        st.InputCoverage = [_cov(font, r.sample(bases, r.randint(2, 4)))]
        st.LookAheadCoverage = [_cov(font, r.sample(bases, r.randint(1, 3))) for _ in range(r.randint(0, 2))]
        st.BacktrackGlyphCount, st.InputGlyphCount, st.LookAheadGlyphCount = 1, 1, len(st.LookAheadCoverage)
        set_recs(st)
        subtables.append(st)
        ltype = {"Sub": {"Context": 5, "ChainContext": 6}, "Pos": {"Context": 7, "ChainContext": 8}}[kind]
        for st in subtables:
            lk = ot.Lookup()
            lk.LookupType = ltype["ChainContext" if type(st).__name__.startswith("Chain") else "Context"]
            lk.LookupFlag = 0
            lk.SubTable = [st]
            lk.SubTableCount = 1
            ll.Lookup.append(lk)
            made.append((tag, type(st).__name__, st.Format))
        ll.LookupCount = len(ll.Lookup)
    return made


def make_font(r, nglyphs=None, with_colr=True, outlines="glyf"):
    """-> TTFont (reloaded from bytes, fully decompiled) with GSUB/GPOS/GDEF of every lookup type and format."""
    from fontTools.feaLib.builder import addOpenTypeFeaturesFromString
    from fontTools.fontBuilder import FontBuilder
    from fontTools.ttLib import TTFont

    n = nglyphs or r.randint(16, 40)
    names = [".notdef"] + [f"g{i}" for i in range(1, n)]
    nb = max(8, (n - 1) * 6 // 10)
    nl = max(3, (n - 1) * 2 // 10)
    pool = names[1:]
    r.shuffle(pool)
    bases, ligs, marks = sorted(pool[:nb]), sorted(pool[nb : nb + nl]), sorted(pool[nb + nl :]) or sorted(pool[-2:])
    if len(marks) < 2:
        marks = ligs[-2:]
        ligs = ligs[:-2] or bases[-2:]
    fb = FontBuilder(1000, isTTF=outlines == "glyf")
    fb.setupGlyphOrder(names)
    fb.setupCharacterMap({0x40 + i: nm for i, nm in enumerate(names) if i})
    if outlines == "glyf":
        fb.setupGlyf({nm: sq(i) for i, nm in enumerate(names)})
    elif outlines == "cff":
        fb.setupCFF("T-R", {"FullName": "T R"}, {nm: sq_charstring(i, 500 + 7 * i) for i, nm in enumerate(names)}, {})
    else:
        fb.setupCFF2({nm: sq_charstring(i, 500 + 7 * i, cff2=True) for i, nm in enumerate(names)})
    fb.setupHorizontalMetrics({nm: (500 + 7 * i, 0) for i, nm in enumerate(names)})
    fb.setupHorizontalHeader(ascent=800, descent=-200)
    fb.setupOS2()
    fb.setupNameTable({"familyName": "T", "styleName": "R"})
    fb.setupPost()
    fea = feature_text(r, bases, ligs, marks, use_ext=r.random() < 0.4)
    addOpenTypeFeaturesFromString(fb.font, fea)
    made = add_handmade_context_lookups(fb.font, r, bases)
    if with_colr:
        from fontTools.colorLib.builder import buildCOLR, buildCPAL

        layers = {nm: [(r.choice(bases), r.randint(0, 1))] for nm in r.sample(bases, 3)}
        fb.font["COLR"] = buildCOLR(layers, version=0)
        fb.font["CPAL"] = buildCPAL([[(1, 0, 0, 1), (0, 0, 1, 1)]])
    b = io.BytesIO()
    fb.font.save(b)
    return b.getvalue(), fea, made
