"""Generators of raw SVG sources (the reference meaning is always taken from their
picosvg-normal form), font configurations and codepoint sequences."""
import math

NAMED = ["red", "blue", "lime", "yellow", "black", "white", "teal", "orange", "rebeccapurple", "wheat"]


def f3(x):
    s = f"{x:.3f}".rstrip("0").rstrip(".")
    return "0" if s in ("-0", "") else s


class FontPalette:
    """var(--colorN, c): one colour per index per font (two colours for one index is an error case,
    generated on purpose only by C15/C17)."""

    def __init__(self, r):
        self.cols = {n: "#%06x" % r.randint(0, 0xFFFFFF) for n in range(8)}


def rnd_color(r, pal=None, allow_fg=True, allow_var=True):
    k = r.random()
    if k > 0.93:
        return r.choice(["black", "#000", "#000000"])  # the default paint: elements that carry no paint attributes at all
    if k < 0.08 and allow_fg:
        return "currentColor"
    if k < 0.18 and allow_var and pal is not None:
        n = r.randint(0, 5)
        return f"var(--color{n}, {pal.cols[n]})"
    if k < 0.28:
        return r.choice(NAMED)
    if k < 0.34:
        return "#%03x" % r.randint(0, 0xFFF)
    if k < 0.40:
        return "rgb(%d, %d, %d)" % (r.randint(0, 255), r.randint(0, 255), r.randint(0, 255))
    if k < 0.45:
        return "#%06x%02x" % (r.randint(0, 0xFFFFFF), r.randint(40, 230))
    return "#%06x" % r.randint(0, 0xFFFFFF)


def shape(r, vbx, vby, vbw, vbh, kinds=None, rel=(0.08, 0.3)):
    """-> (element text without the closing '/>', bbox (x,y,w,h), kind)"""
    kinds = kinds or ["rect", "rrect", "circle", "ellipse", "polygon", "qpath", "cpath", "apath", "ring", "stroke", "polyline"]
    k = r.choice(kinds)
    cx = vbx + r.uniform(0.2, 0.8) * vbw
    cy = vby + r.uniform(0.2, 0.8) * vbh
    s = min(vbw, vbh) * r.uniform(*rel)
    if k == "rect":
        return f'<rect x="{f3(cx-s)}" y="{f3(cy-s*0.6)}" width="{f3(2*s)}" height="{f3(1.2*s)}"', (cx - s, cy - s * 0.6, 2 * s, 1.2 * s), k
    if k == "rrect":
        return f'<rect x="{f3(cx-s)}" y="{f3(cy-s*0.6)}" width="{f3(2*s)}" height="{f3(1.2*s)}" rx="{f3(s*0.2)}"', (cx - s, cy - s * 0.6, 2 * s, 1.2 * s), k
    if k == "circle":
        return f'<circle cx="{f3(cx)}" cy="{f3(cy)}" r="{f3(s)}"', (cx - s, cy - s, 2 * s, 2 * s), k
    if k == "ellipse":
        return f'<ellipse cx="{f3(cx)}" cy="{f3(cy)}" rx="{f3(s)}" ry="{f3(s*0.5)}"', (cx - s, cy - s / 2, 2 * s, s), k
    n = r.randint(3, 8)
    pts = []
    a0 = r.uniform(0, 6.28)
    for i in range(n):
        a = a0 + 2 * math.pi * i / n + r.uniform(-0.2, 0.2)
        rr = s * r.uniform(0.55, 1)
        pts.append((cx + rr * math.cos(a), cy + rr * math.sin(a)))
    xs = [p[0] for p in pts]
    ys = [p[1] for p in pts]
    bb = (min(xs), min(ys), max(xs) - min(xs), max(ys) - min(ys))
    P = lambda p: f"{f3(p[0])},{f3(p[1])}"
    if k == "polygon":
        return '<polygon points="' + " ".join(P(p) for p in pts) + '"', bb, k
    if k == "polyline":
        d = "M" + " L".join(P(p) for p in pts) + " Z"
        return f'<path d="{d}"', bb, k
    if k == "qpath":
        d = f"M{P(pts[0])}"
        for i in range(1, n + 1):
            a, b = pts[i - 1], pts[i % n]
            mx = (a[0] + b[0]) / 2 + r.uniform(-s, s) * 0.3
            my = (a[1] + b[1]) / 2 + r.uniform(-s, s) * 0.3
            d += f" Q{f3(mx)},{f3(my)} {P(b)}"
        return f'<path d="{d} Z"', (bb[0] - 0.3 * s, bb[1] - 0.3 * s, bb[2] + 0.6 * s, bb[3] + 0.6 * s), k
    if k == "cpath":
        d = f"M{P(pts[0])}"
        for i in range(1, n + 1):
            a, b = pts[i - 1], pts[i % n]
            c1 = (a[0] + (b[0] - a[0]) / 3 + r.uniform(-s, s) * 0.25, a[1] + (b[1] - a[1]) / 3 + r.uniform(-s, s) * 0.25)
            c2 = (a[0] + 2 * (b[0] - a[0]) / 3 + r.uniform(-s, s) * 0.25, a[1] + 2 * (b[1] - a[1]) / 3 + r.uniform(-s, s) * 0.25)
            d += f" C{P(c1)} {P(c2)} {P(b)}"
        return f'<path d="{d} Z"', (bb[0] - 0.25 * s, bb[1] - 0.25 * s, bb[2] + 0.5 * s, bb[3] + 0.5 * s), k
    if k == "apath":
        # pie slice: centre -> arc -> back
        a1 = r.uniform(0, 6.28)
        a2 = a1 + r.uniform(0.6, 4.5)
        p1 = (cx + s * math.cos(a1), cy + s * math.sin(a1))
        p2 = (cx + s * math.cos(a2), cy + s * math.sin(a2))
        large = 1 if (a2 - a1) > math.pi else 0
        d = f"M{P((cx,cy))} L{P(p1)} A{f3(s)} {f3(s)} 0 {large} 1 {P(p2)} Z"
        return f'<path d="{d}"', (cx - s, cy - s, 2 * s, 2 * s), k
    if k == "ring":
        inner = [(cx + (x - cx) * 0.45, cy + (y - cy) * 0.45) for x, y in pts]
        d = "M" + " L".join(P(p) for p in pts) + " Z M" + " L".join(P(p) for p in reversed(inner)) + " Z"
        return f'<path d="{d}"', bb, k
    # stroke: an open polyline drawn with a wide stroke (picosvg turns it into a filled outline)
    w = s * r.uniform(0.15, 0.3)
    d = "M" + " L".join(P(p) for p in pts[: max(2, n // 2)])
    lj = r.choice(["round", "miter", "bevel"])
    return f'<path d="{d}" fill="none" stroke-width="{f3(w)}" stroke-linejoin="{lj}" stroke-linecap="{r.choice(["round","butt","square"])}" STROKE', (bb[0] - w, bb[1] - w, bb[2] + 2 * w, bb[3] + 2 * w), k


def stops_xml(r, pal, n=None):
    n = n or r.randint(2, 4)
    offs = sorted(r.uniform(0, 1) for _ in range(n))
    mode = r.random()
    if mode < 0.6:
        offs[0] = 0.0
        offs[-1] = 1.0
    elif mode < 0.7:
        offs[0] = 0.0
    elif mode < 0.8:
        offs[-1] = 1.0
    if n >= 3 and r.random() < 0.15:
        offs[1] = offs[0] if r.random() < 0.3 else offs[1]
        if n >= 4 and r.random() < 0.5:
            offs[2] = offs[1]  # hard stop
    out = ""
    fade = r.random()  # fade-in / fade-out gradients: an end stop that is fully transparent
    flat = r.random()  # a colour line that begins or ends with a flat run: two stops of one colour and opacity
    prev = None
    for k_, o in enumerate(offs):
        so = f' stop-opacity="{r.uniform(0.2,1):.2f}"' if r.random() < 0.3 else ""
        if (fade < 0.1 and k_ == 0) or (0.07 < fade < 0.15 and k_ == len(offs) - 1):
            so = ' stop-opacity="0"'
        ostr = f"{o*100:.1f}%" if r.random() < 0.25 else f3(o)
        col = rnd_color(r, pal)
        if n >= 3 and prev is not None and ((flat < 0.1 and k_ == 1) or (0.06 < flat < 0.16 and k_ == len(offs) - 1)):
            col, so = prev
        prev = (col, so)
        out += f'<stop offset="{ostr}" stop-color="{col}"{so}/>'
    return out


def gradient(r, gid, bbox, pal=None, spread=True, allow_focal=True):
    x, y, w, h = bbox
    units = r.choice(["objectBoundingBox", "userSpaceOnUse"])
    stops = stops_xml(r, pal)
    gt = ""
    if r.random() < 0.5:
        k = r.random()
        if k < 0.35:
            if units == "userSpaceOnUse":
                gt = f"rotate({r.uniform(-90,90):.1f} {x+w/2:.2f} {y+h/2:.2f})"
            else:
                gt = f"rotate({r.uniform(-90,90):.1f} 0.5 0.5)"
        elif k < 0.6:
            sc = 1.0 if units == "objectBoundingBox" else max(w, h)
            gt = f"matrix({r.uniform(0.5,1.5):.2f} {r.uniform(-0.4,0.4):.2f} {r.uniform(-0.4,0.4):.2f} {r.uniform(0.5,1.5):.2f} {r.uniform(-0.1,0.1)*sc:.3f} {r.uniform(-0.1,0.1)*sc:.3f})"
        elif k < 0.8:
            gt = f"scale({r.uniform(0.5,1.5):.2f} {r.uniform(0.5,1.5):.2f})"
        elif k < 0.9:
            gt = f"skewX({r.uniform(-30,30):.1f})"
        else:
            sc = 1.0 if units == "objectBoundingBox" else max(w, h)
            gt = f"translate({r.uniform(-0.2,0.2)*sc:.3f} {r.uniform(-0.2,0.2)*sc:.3f})"
        gt = f' gradientTransform="{gt}"'
    sm = r.choice(["", ' spreadMethod="reflect"', ' spreadMethod="repeat"', ' spreadMethod="pad"']) if spread else ""
    if r.random() < 0.5:
        if units == "objectBoundingBox":
            c = (r.uniform(0, 0.4), r.uniform(0, 0.4), r.uniform(0.6, 1), r.uniform(0.6, 1))
            if r.random() < 0.2:
                return f'<linearGradient id="{gid}"{gt}{sm}>{stops}</linearGradient>', "linear"
            if r.random() < 0.2:
                return f'<linearGradient id="{gid}" x1="{c[0]*100:.1f}%" y1="{c[1]*100:.1f}%" x2="{c[2]*100:.1f}%" y2="{c[3]*100:.1f}%"{gt}{sm}>{stops}</linearGradient>', "linear"
        else:
            c = (x + r.uniform(0, 0.4) * w, y + r.uniform(0, 0.4) * h, x + r.uniform(0.6, 1) * w, y + r.uniform(0.6, 1) * h)
            if not gt and r.random() < 0.2:
                # an end point with a coordinate of exactly 0 (an attribute whose value equals *some* default)
                c = list(c)
                k_ = r.randrange(4)
                c[k_] = 0.0
                if r.random() < 0.4:
                    c[(k_ + 2) % 4] = 0.0  # e.g. x1 = x2 = 0: a vertical ramp on the left edge
                c = tuple(c)
        return f'<linearGradient id="{gid}" gradientUnits="{units}" x1="{f3(c[0])}" y1="{f3(c[1])}" x2="{f3(c[2])}" y2="{f3(c[3])}"{gt}{sm}>{stops}</linearGradient>', "linear"
    if units == "objectBoundingBox":
        cx, cy, rr = r.uniform(0.3, 0.7), r.uniform(0.3, 0.7), r.uniform(0.3, 0.7)
        if r.random() < 0.15:
            return f'<radialGradient id="{gid}"{gt}{sm}>{stops}</radialGradient>', "radial"
    else:
        cx, cy, rr = x + r.uniform(0.3, 0.7) * w, y + r.uniform(0.3, 0.7) * h, r.uniform(0.3, 0.7) * max(w, h)
    foc = ""
    if allow_focal and r.random() < 0.4:
        a = r.uniform(0, 6.28)
        dd = r.uniform(0, 0.5) * rr
        fr = r.uniform(0, 0.3) * rr if r.random() < 0.5 else 0
        foc = f' fx="{f3(cx+dd*math.cos(a))}" fy="{f3(cy+dd*math.sin(a))}"' + (f' fr="{f3(fr)}"' if fr else "")
        if fr and r.random() < 0.4:
            foc = f' fr="{f3(fr)}"'  # a focal radius without a displaced focal point (a ring / halo gradient)
    return f'<radialGradient id="{gid}" gradientUnits="{units}" cx="{f3(cx)}" cy="{f3(cy)}" r="{f3(rr)}"{foc}{gt}{sm}>{stops}</radialGradient>', "radial"


def twin_gradient_source(r, gi=0):
    """Two shapes in one glyph whose radial gradients have the same circles and stops but different residual
    (non-uniform) gradientTransforms - candidates for a wrongly shared <radialGradient> in one OT-SVG document.
    Half of the sources centre the gradients on the user-space origin (viewBox -50 -50 100 100) so that the two
    transforms also agree in their translation part."""
    vb = r.choice([100, 128, 1000])
    u = vb / 100.0
    origin = r.random() < 0.5
    ox = -50 * u if origin else 0.0
    cx, cy, rad = 50 * u + ox, 50 * u + ox, r.uniform(15, 30) * u
    stops = f'<stop offset="0" stop-color="#{r.randint(0, 0xFFFFFF):06x}"/><stop offset="1" stop-color="#{r.randint(0, 0xFFFFFF):06x}"/>'
    k = r.uniform(0.25, 0.6)
    kind = r.choice(["skew", "stretch-x-vs-y", "stretch-vs-none", "rotated-stretch"])
    if kind == "skew":
        t1, t2 = f"matrix(1 0 {k:.3f} 1 {-k*cy:.3f} 0)", f"matrix(1 0 {-k:.3f} 1 {k*cy:.3f} 0)"
    elif kind == "stretch-x-vs-y":
        # same maximal scale (so the same uniform part), the other axis squeezed
        t1 = f"translate({cx:.3f} {cy:.3f}) scale(1 {1-k:.3f}) translate({-cx:.3f} {-cy:.3f})"
        t2 = f"translate({cx:.3f} {cy:.3f}) scale({1-k:.3f} 1) translate({-cx:.3f} {-cy:.3f})"
    elif kind == "rotated-stretch":
        t1 = f"translate({cx:.3f} {cy:.3f}) rotate(30) scale(1 {1-k:.3f}) rotate(-30) translate({-cx:.3f} {-cy:.3f})"
        t2 = f"translate({cx:.3f} {cy:.3f}) rotate(-40) scale(1 {1-k:.3f}) rotate(40) translate({-cx:.3f} {-cy:.3f})"
    else:
        t1 = f"translate({cx:.3f} {cy:.3f}) scale(1 {1-k:.3f}) translate({-cx:.3f} {-cy:.3f})"
        t2 = ""
    g = lambda i, t: f'<radialGradient id="tw{gi}_{i}" gradientUnits="userSpaceOnUse" cx="{cx:.3f}" cy="{cy:.3f}" r="{rad:.3f}"' + (f' gradientTransform="{t}"' if t else "") + f">{stops}</radialGradient>"
    a = f'<rect x="{20*u+ox:.2f}" y="{25*u+ox:.2f}" width="{30*u:.2f}" height="{50*u:.2f}" fill="url(#tw{gi}_0)"/>'
    b = f'<path d="M{50*u+ox:.2f},{20*u+ox:.2f} L{85*u+ox:.2f},{40*u+ox:.2f} L{70*u+ox:.2f},{85*u+ox:.2f} L{52*u+ox:.2f},{60*u+ox:.2f} Z" fill="url(#tw{gi}_1)"/>'
    return f'<svg xmlns="http://www.w3.org/2000/svg" viewBox="{ox:g} {ox:g} {vb} {vb}"><defs>{g(0, t1)}{g(1, t2)}</defs>{a}{b}</svg>', {"kind": kind, "origin": origin}


VIEWBOXES = [(24, 1), (36, 1), (100, 1), (128, 1), (512, 1), (1000, 1), (128, 0.5), (128, 2), (100, 0.25), (100, 4), (72, 1.3)]


def pick_viewbox(r):
    vbh, ar = r.choice(VIEWBOXES)
    vbw = vbh * ar
    vbx = r.choice([0, 0, 0, -10, 17.5])
    vby = r.choice([0, 0, 0, 5, -33])
    return (vbx, vby, vbw, vbh)


def finish_el(el, fill, op, tr):
    if el.endswith("STROKE"):
        el = el[: -len("STROKE")]
        return f'{el} stroke="{fill}"{op}{tr}/>'
    return f'{el} fill="{fill}"{op}{tr}/>'


def svg_source(r, gi=0, pal=None, vb=None, max_shapes=4, gradients=True, groups=True, kinds=None, outside=False):
    """One raw SVG.  Returns (text, meta)."""
    vbx, vby, vbw, vbh = vb or pick_viewbox(r)
    defs = []
    gcount = [0]
    meta = {"viewBox": [vbx, vby, vbw, vbh], "shapes": 0, "gradients": 0, "groups": 0, "kinds": []}
    obb_grads = []

    def emit(depth, shared=None):
        out = ""
        nsh = r.randint(2 if depth else 1, max_shapes)
        for _ in range(nsh):
            if groups and depth < 2 and r.random() < 0.2:
                # a third of the groups paint all their (overlapping) children with one flat colour, as artwork does
                inner = emit(depth + 1, rnd_color(r, pal) if r.random() < 0.35 else None)
                meta["groups"] += 1
                grp = f'<g opacity="{r.uniform(0.2,0.9):.2f}">{inner}</g>'
                out += grp
                if r.random() < 0.12:
                    # the very same group twice, as siblings: equal by value, two groups in the picture
                    out += grp
                    meta["groups"] += 1
                    meta["shapes"] += inner.count(" fill=")
                    meta["twin_sibling_groups"] = meta.get("twin_sibling_groups", 0) + 1
                continue
            el, bbox, kind = shape(r, vbx, vby, vbw, vbh, kinds)
            if outside and r.random() < 0.3:
                # push partly outside the viewBox
                dx = r.choice([-1, 1]) * vbw * r.uniform(0.35, 0.6)
                tr0 = f"translate({f3(dx)} 0) "
            else:
                tr0 = ""
            meta["shapes"] += 1
            meta["kinds"].append(kind)
            if gradients and r.random() < 0.45:
                if obb_grads and r.random() < 0.4:
                    # one objectBoundingBox gradient filling several shapes: the same element, fitted to each
                    # shape's own bounding box
                    fill = f"url(#{r.choice(obb_grads)})"
                    meta["shared_bbox_gradients"] = meta.get("shared_bbox_gradients", 0) + 1
                else:
                    gid = f"grad{gi}_{gcount[0]}"
                    gcount[0] += 1
                    gx, gk = gradient(r, gid, bbox, pal)
                    defs.append(gx)
                    meta["gradients"] += 1
                    fill = f"url(#{gid})"
                    if "userSpaceOnUse" not in gx:
                        obb_grads.append(gid)
            else:
                fill = rnd_color(r, pal)
            k = r.random()
            op = f' opacity="{r.uniform(0.2,0.95):.2f}"' if k < 0.25 else (f' fill-opacity="{r.uniform(0.2,0.95):.2f}"' if k < 0.32 and "STROKE" not in el else "")
            if shared is not None:
                fill, op = shared, ""
            tr = ""
            if tr0 or r.random() < 0.25:
                kk = r.random()
                cxm, cym = bbox[0] + bbox[2] / 2, bbox[1] + bbox[3] / 2
                if kk < 0.6:
                    t2 = f"rotate({r.uniform(-180,180):.1f} {cxm:.2f} {cym:.2f})"
                elif kk < 0.8:
                    t2 = f"translate({cxm:.2f} {cym:.2f}) scale({r.uniform(0.6,1.4):.2f} {r.uniform(0.6,1.4):.2f}) translate({-cxm:.2f} {-cym:.2f})"
                else:
                    t2 = f"translate({cxm:.2f} {cym:.2f}) skewX({r.uniform(-25,25):.1f}) translate({-cxm:.2f} {-cym:.2f})"
                tr = f' transform="{tr0}{t2}"' if r.random() < 0.8 or not tr0 else f' transform="{tr0.strip()}"'
            piece = finish_el(el, fill, op, tr)
            out += piece
            if shared is None and "url(#" not in piece and r.random() < 0.12:
                repeats.append(piece)
            elif repeats and r.random() < 0.5:
                # the very same element again, later in z-order (A, B, A): two layers, not one
                out += repeats.pop()
                meta["shapes"] += 1
                meta["verbatim_repeats"] = meta.get("verbatim_repeats", 0) + 1
        return out

    repeats = []
    body = emit(0)
    if gradients and r.random() < 0.05:
        # a very thin bar (aspect 30..150 : 1) carrying a bounding-box gradient: the gradient's frame is squeezed by
        # that ratio, so circle centres and end points mapped through the inverse of the residual matrix can leave
        # the 16-bit range when the bar sits far from the baseline
        w = vbw * r.uniform(0.7, 0.95)
        h = w / r.uniform(30, 150)
        bx, by = vbx + (vbw - w) * r.uniform(0, 1), vby + (vbh - h) * r.choice([r.uniform(0, 0.2), r.uniform(0, 1), r.uniform(0.85, 1)])
        gid = f"bar{gi}"
        if r.random() < 0.6:
            defs.append(f'<radialGradient id="{gid}" cx="0.5" cy="0.5" r="0.5">{stops_xml(r, pal)}</radialGradient>')
        else:
            defs.append(f'<linearGradient id="{gid}" x1="0" y1="0" x2="1" y2="1">{stops_xml(r, pal)}</linearGradient>')
        if r.random() < 0.5:
            bx, by, w, h = by - vby + vbx, bx - vbx + vby, h, w  # upright instead of lying
        body += f'<rect x="{f3(bx)}" y="{f3(by)}" width="{f3(w)}" height="{f3(h)}" fill="url(#{gid})"/>'
        meta["thin_bar_gradient"] = 1
        meta["shapes"] += 1
        meta["gradients"] += 1
    text = f'<svg xmlns="http://www.w3.org/2000/svg" viewBox="{f3(vbx)} {f3(vby)} {f3(vbw)} {f3(vbh)}"><defs>{"".join(defs)}</defs>{body}</svg>'
    return text, meta


# ---------------------------------------------------------------------------------------
# recurrence: the same shape under affine images, within a glyph and across glyphs


def recur_transform(r, cx, cy, vb_size, kinds=None):
    kinds = kinds or ["translate", "rotate", "rot90", "mirror", "uscale", "nuscale", "general", "bigscale", "identity"]
    k = r.choice(kinds)
    if k == "identity":
        return k, ""  # the same shape at exactly the same place (in another glyph, or twice in one)
    if k == "translate":
        return k, f"translate({r.uniform(-0.2,0.2)*vb_size:.2f} {r.uniform(-0.2,0.2)*vb_size:.2f})"
    if k == "rotate":
        return k, f"rotate({r.uniform(-180,180):.1f} {cx:.2f} {cy:.2f})"
    if k == "rot90":
        return k, f"rotate({r.choice([90,180,270])} {cx:.2f} {cy:.2f})"
    if k == "mirror":
        if r.random() < 0.5:
            return k, f"translate({2*cx:.2f} 0) scale(-1 1)"
        return k, f"translate(0 {2*cy:.2f}) scale(1 -1)"
    if k == "uscale":
        s = r.uniform(0.3, 3)
        return k, f"translate({cx:.2f} {cy:.2f}) scale({s:.3f}) translate({-cx:.2f} {-cy:.2f})"
    if k == "bigscale":
        s = r.uniform(5, 40)
        return k, f"translate({cx:.2f} {cy:.2f}) scale({s:.3f}) translate({-cx:.2f} {-cy:.2f})"
    if k == "nuscale":
        sx = r.uniform(0.4, 2.5)
        sy = r.uniform(0.4, 2.5)
        return k, f"translate({cx:.2f} {cy:.2f}) scale({sx:.3f} {sy:.3f}) translate({-cx:.2f} {-cy:.2f})"
    sx = r.uniform(0.4, 2.5)
    sy = r.uniform(0.4, 2.5) * r.choice([1, 1, -1])
    return k, f"translate({cx:.2f} {cy:.2f}) rotate({r.uniform(-90,90):.1f}) scale({sx:.3f} {sy:.3f}) translate({-cx:.2f} {-cy:.2f})"


def recurrence_set(r, nglyphs=2, pal=None, vb_choices=(64, 128, 1000), same_vb=True, kinds=None, gradients=True, tkinds=None, extra_random=True):
    """A set of sources in which one or two prototype shapes recur under affine images.
    Returns (list of svg texts, meta)."""
    vbs = []
    base_vb = r.choice(vb_choices)
    for g in range(nglyphs):
        v = base_vb if same_vb else r.choice(vb_choices)
        vbs.append(v)
    protos = []
    for _ in range(r.randint(1, 2)):
        el, bbox, kind = shape(r, 0, 0, base_vb, base_vb, kinds or ["rect", "circle", "ellipse", "polygon", "qpath", "cpath", "ring", "polyline", "apath"], rel=(0.05, 0.2) if tkinds and "bigscale" in tkinds else (0.08, 0.25))
        protos.append((el, bbox, kind))
    svgs = []
    meta = {"transforms": [], "kinds": [p[2] for p in protos], "viewBoxes": vbs}
    first = True
    for g in range(nglyphs):
        vb = vbs[g]
        scale_g = vb / base_vb
        defs = ""
        body = ""
        for c in range(r.randint(1, 3)):
            el, bbox, kind = r.choice(protos)
            cx = bbox[0] + bbox[2] / 2
            cy = bbox[1] + bbox[3] / 2
            if gradients and r.random() < 0.5:
                gid = f"g{g}_{c}"
                gx, _ = gradient(r, gid, bbox, pal)
                defs += gx
                fill = f"url(#{gid})"
            else:
                fill = rnd_color(r, pal)
            if first:
                tr = ""
                first = False
            else:
                tk, t = recur_transform(r, cx, cy, base_vb, tkinds)
                meta["transforms"].append(tk)
                tr = t
            if scale_g != 1:
                tr = f"scale({f3(scale_g)}) " + tr
            trs = f' transform="{tr.strip()}"' if tr.strip() else ""
            op = f' opacity="{r.uniform(0.3,0.9):.2f}"' if r.random() < 0.3 else ""
            body += finish_el(el, fill, op, trs)
        if extra_random and r.random() < 0.3:
            el, bbox, kind = shape(r, 0, 0, vb, vb)
            body += finish_el(el, rnd_color(r, pal), "", "")
        svgs.append(f'<svg xmlns="http://www.w3.org/2000/svg" viewBox="0 0 {vb} {vb}"><defs>{defs}</defs>{body}</svg>')
    return svgs, meta


def paint_varied_reuse_set(r, nglyphs=3, defaults=False):
    """One prototype outline placed by pure translation in several glyphs, every occurrence with its own fill AND its own
    opacity (so shared-shape encodings must carry more than one per-use paint attribute)."""
    vb = 100
    x0, y0, w, h = r.randint(5, 30), r.randint(5, 30), r.randint(10, 30), r.randint(10, 30)
    d = f"M{x0},{y0} L{x0+w},{y0} L{x0+w},{y0+h} L{x0},{y0+h//2} Z"
    svgs = []
    for g in range(nglyphs):
        body = ""
        for c in range(r.randint(2 if (defaults and g == 0) else 1, 3)):
            dx, dy = r.randint(0, 40), r.randint(0, 40)
            fill = "#%02x%02x%02x" % (r.randint(1, 255), r.randint(0, 255), r.randint(0, 255))
            op = f' opacity="{r.choice([0.25, 0.3, 0.5, 0.75, 0.8])}"' if r.random() < 0.85 else ""
            tr = f' transform="translate({dx} {dy})"' if (g or c) else ""
            if defaults and ((g == 0 and c == 1) or r.random() < (0.0 if (g == 0 and c == 0) else 0.35)):
                # an occurrence left at the defaults (black, opaque): nothing for a <use> to say
                body += f'<path d="{d}"{tr}/>' if r.random() < 0.5 else f'<path d="{d}" fill="black"{tr}/>'
                continue
            if defaults and r.random() < 0.2:
                op = ""
            body += f'<path d="{d}" fill="{fill}"{op}{tr}/>'
        svgs.append(f'<svg xmlns="http://www.w3.org/2000/svg" viewBox="0 0 {vb} {vb}">{body}</svg>')
    return svgs


def same_body_other_viewbox_set(r, nglyphs=3, gradients=False, pal=None):
    """The same artwork, character for character, under different viewBoxes (size, origin, aspect): identical path
    strings that must land in different places / sizes of the em box."""
    shapes = []
    for _ in range(r.randint(1, 3)):
        x0, y0 = r.randint(10, 30), r.randint(10, 60)
        w, h = r.randint(5, 15), r.randint(8, 30)
        k = r.choice(["tri", "quad", "curve"])
        if k == "tri":
            d = f"M{x0},{y0} L{x0+w},{y0+h//2} L{x0},{y0+h} Z"
        elif k == "quad":
            d = f"M{x0},{y0} L{x0+w},{y0} L{x0+w},{y0+h} L{x0-3},{y0+h-2} Z"
        else:
            d = f"M{x0},{y0} C{x0+w},{y0} {x0+w},{y0+h} {x0},{y0+h} Z"
        shapes.append((d, rnd_color(r, pal)))
    body = "".join(f'<path d="{d}" fill="{f}"/>' for d, f in shapes)
    boxes = [(0, 0, 100, 100), (0, 0, 200, 100), (-20, -10, 150, 150), (0, 0, 50, 100), (5, 5, 64, 96), (0, 0, 1000, 1000)]
    r.shuffle(boxes)
    return [f'<svg xmlns="http://www.w3.org/2000/svg" viewBox="{b[0]} {b[1]} {b[2]} {b[3]}">{body}</svg>' for b in boxes[:nglyphs]]


def grid_recurrence_set(r, nglyphs=2, gradients=True, pal=None):
    """Recurrence on an integer grid: the viewBox maps to font units by an integer factor, shapes and the centres /
    offsets of the placing transforms are integers, scales are 'nice' (-1, 1/2, 3/2, 2, 1 on one axis) - so the encoder
    gets exact integer translations and centres and picks its *specialised* paints (PaintTranslate, PaintScale,
    PaintScale[Uniform]AroundCenter) instead of the general matrix.  -> (svgs, config overrides, meta)"""
    vb = r.choice([64, 100, 128])
    k = r.choice([8, 10, 16])
    em = vb * k
    asc = (em * r.choice([3, 4])) // 4 if r.random() < 0.7 else em
    cfg = {"upem": em if em <= 2048 else 2048, "ascender": asc, "descender": asc - em, "width": em, "clip_to_viewbox": False}
    # prototype with integer coordinates and an axis-aligned first edge (so picosvg finds the affine)
    x0, y0 = r.randint(vb // 8, vb // 3), r.randint(vb // 8, vb // 3)
    w, h = r.randint(vb // 10, vb // 4), r.randint(vb // 10, vb // 4)
    kind = r.choice(["rect", "L", "tri"])
    if kind == "rect":
        d = f"M{x0},{y0} L{x0+w},{y0} L{x0+w},{y0+h} L{x0},{y0+h} Z"
    elif kind == "L":
        d = f"M{x0},{y0} L{x0+w},{y0} L{x0+w},{y0+h//2} L{x0+w//2},{y0+h//2} L{x0+w//2},{y0+h} L{x0},{y0+h} Z"
    else:
        d = f"M{x0},{y0} L{x0+w},{y0} L{x0+w//3},{y0+h} Z"
    bbox = (x0, y0, w, h)
    svgs, kinds = [], []
    first = True
    for g in range(nglyphs):
        defs, body = "", ""
        for c in range(r.randint(1, 3)):
            if first:
                tr = ""
                first = False
            else:
                cx, cy = r.randint(0, vb), r.randint(0, vb)
                tk = r.choice(["translate", "mirror-x+dy", "mirror-y+dx", "scale-x+dy", "scale-y+dx", "scale-xy", "uniform-centre", "uniform-origin"])
                kinds.append(tk)
                dx, dy = r.randint(-vb // 4, vb // 3), r.randint(-vb // 4, vb // 3)
                sc = r.choice([0.5, 1.5, 2, -1, -0.5])
                if tk == "translate":
                    tr = f"translate({dx} {dy})"
                elif tk == "mirror-x+dy":
                    tr = f"translate(0 {dy}) translate({cx} 0) scale(-1 1) translate({-cx} 0)"
                elif tk == "mirror-y+dx":
                    tr = f"translate({dx} 0) translate(0 {cy}) scale(1 -1) translate(0 {-cy})"
                elif tk == "scale-x+dy":
                    tr = f"translate(0 {dy}) translate({cx} 0) scale({sc} 1) translate({-cx} 0)"
                elif tk == "scale-y+dx":
                    tr = f"translate({dx} 0) translate(0 {cy}) scale(1 {sc}) translate(0 {-cy})"
                elif tk == "scale-xy":
                    tr = f"translate({cx} {cy}) scale({sc} {r.choice([0.5, 1.5, -1, 2])}) translate({-cx} {-cy})"
                elif tk == "uniform-centre":
                    tr = f"translate({cx} {cy}) scale({abs(sc)}) translate({-cx} {-cy})"
                else:
                    tr = f"scale({r.choice([0.5, 1.5, 2])})"
            if gradients and r.random() < 0.35:
                gid = f"gg{g}_{c}"
                gx, _ = gradient(r, gid, bbox, pal)
                defs += gx
                fill = f"url(#{gid})"
            else:
                fill = rnd_color(r, pal)
            trs = f' transform="{tr}"' if tr else ""
            body += f'<path d="{d}" fill="{fill}"{trs}/>'
        svgs.append(f'<svg xmlns="http://www.w3.org/2000/svg" viewBox="0 0 {vb} {vb}"><defs>{defs}</defs>{body}</svg>')
    return svgs, cfg, {"transforms": kinds, "kind": kind, "vb": vb, "k": k}


# ---------------------------------------------------------------------------------------
# configurations


def font_config(r, formats=("glyf_colr_1",), user_transform=True, small_upem=True):
    upem = r.choice([1000, 1024, 2048, 1024, 2048, 100, 16384, 256] if small_upem else [1000, 1024, 2048])
    asc = int(upem * r.choice([0.8, 0.9, 0.95, 1.0, 0.88]))
    desc = asc - int(upem * r.choice([1.0, 1.0, 1.2, 1.17]))
    if r.random() < 0.1:
        desc = 0
    if desc > 0:
        desc = 0
    em = asc - desc
    width = r.choice([0, em, em, int(em * 1.25), int(em * 0.6), upem])
    cfg = {
        "upem": upem,
        "ascender": asc,
        "descender": desc,
        "width": width,
        "linegap": r.choice([0, 0, int(upem * 0.1)]),
        "color_format": r.choice(list(formats)),
        "reuse_tolerance": r.choice([0.1, 0.1, 0.1, 0.05, 1.0, 0.0, -1]),
        "clipbox_quantization": r.choice([None, None, 1, 7, 64, max(1, upem // 10)]),
        "keep_glyph_names": r.random() < 0.5,
        "clip_to_viewbox": r.random() < 0.7,
        "pretty_print": r.random() < 0.3,
    }
    if user_transform and r.random() < 0.3:
        k = r.random()
        if k < 0.3:
            m = (1, 0, 0, 1, r.randint(-upem // 5, upem // 5), r.randint(-upem // 5, upem // 5))
        elif k < 0.55:
            m = (round(r.uniform(0.5, 1.5), 3), 0, 0, round(r.uniform(0.5, 1.5), 3), 0, 0)
        elif k < 0.75:
            a = r.uniform(-0.6, 0.6)
            m = (round(math.cos(a), 4), round(math.sin(a), 4), round(-math.sin(a), 4), round(math.cos(a), 4), 0, 0)
        elif k < 0.9:
            m = (round(r.uniform(0.7, 1.3), 3), round(r.uniform(-0.3, 0.3), 3), round(r.uniform(-0.3, 0.3), 3), round(r.uniform(0.7, 1.3), 3), r.randint(-50, 50), r.randint(-50, 50))
        else:
            m = (1, 0, 0, -1, 0, asc + desc)
        cfg["transform"] = "matrix(" + " ".join(str(x) for x in m) + ")"
    return cfg


# ---------------------------------------------------------------------------------------
# codepoint sequences

ZWJ, VS16 = 0x200D, 0xFE0F
SKIN = [0x1F3FB, 0x1F3FC, 0x1F3FD, 0x1F3FE, 0x1F3FF]


def sequences(r, n, ascii_letters=True, long_names=True, prefixes=True):
    """n pairwise-distinct codepoint sequences (scalars > U+0020), hostile shapes included."""
    out = []
    seen = set()
    pool = [r.choice([r.randint(0x21, 0x7E), r.randint(0xA1, 0x2FFF), r.randint(0x1F300, 0x1FAFF), r.randint(0xE000, 0xF8FF), r.randint(0x10000, 0x10FFFF)]) for _ in range(max(4, n))]
    pool = [c for c in pool if not (0xD800 <= c <= 0xDFFF)]

    def add(seq):
        seq = tuple(seq)
        if seq and seq not in seen and all(c > 0x20 and not (0xD800 <= c <= 0xDFFF) for c in seq):
            seen.add(seq)
            out.append(seq)
            return True
        return False

    tries = 0
    while len(out) < n and tries < n * 50:
        tries += 1
        k = r.random()
        if k < 0.35:
            add((r.choice(pool),))
        elif k < 0.45 and ascii_letters:
            add((r.randint(0x41, 0x5A) if r.random() < 0.5 else r.randint(0x61, 0x7A),))
        elif k < 0.55:
            add((r.choice(pool), r.choice(SKIN)))
        elif k < 0.65:
            add((r.choice(pool), ZWJ, r.choice(pool)))
        elif k < 0.7:
            add((r.choice(pool), VS16))
        elif k < 0.75:
            add((r.randint(0x1F1E6, 0x1F1FF), r.randint(0x1F1E6, 0x1F1FF)))
        elif k < 0.8:
            add((r.randint(0x30, 0x39), VS16, 0x20E3))
        elif k < 0.88 and prefixes and out:
            base = r.choice(out)
            if r.random() < 0.5 and len(base) > 1:
                add(base[:-1])
            else:
                add(base + (r.choice([ZWJ, VS16] + pool),))
        elif k < 0.94 and long_names:
            ln = r.randint(9, 14)
            add(tuple(r.choice([r.randint(0x1F300, 0x1FAFF), ZWJ, r.randint(0x10000, 0x10FFFF)]) for _ in range(ln)))
        else:
            ln = r.randint(2, 6)
            add(tuple(r.choice(pool + [ZWJ, VS16]) for _ in range(ln)))
    return out
