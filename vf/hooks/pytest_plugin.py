"""pytest plugin: runs the repository's own tests with the runtime contracts switched on.
A contract that fires there is either too strict or a defect the tests do not assert."""
import json
import os


def pytest_sessionstart(session):
    from vf.hooks import contracts

    contracts.install()
    contracts.reset()


def pytest_sessionfinish(session, exitstatus):
    from vf.hooks import contracts

    out = os.environ.get("VERIF_CONTRACT_REPORT")
    if out:
        with open(out, "w") as f:
            json.dump({"counters": contracts.counters(), "violations": contracts.violations(), "exitstatus": int(exitstatus)}, f)
