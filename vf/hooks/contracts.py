"""Runtime contracts and recorders wrapped around the real nanoemoji functions (no source edits).

`install()` wraps the functions in their defining modules and rebinds every `from m import f`
alias in every loaded nanoemoji.* module, so no caller bypasses a contract.  Evaluation counters
tell the checks whether a deciding contract was ever reached (0 => inconclusive)."""
import io
import math
import sys
import functools
from collections import Counter

import numpy as np

COUNT = Counter()
VIOL = []
LOG = {"reuse": [], "use": []}
_INSTALLED = False
_STATE = {"last_hit_path": None, "capture_round": None}


class ContractBroken(AssertionError):
    pass


def reset():
    COUNT.clear()
    del VIOL[:]
    for v in LOG.values():
        del v[:]
    _STATE["last_hit_path"] = None


def counters():
    return dict(COUNT)


def violations():
    return list(VIOL)


def _fail(hook, what, **witness):
    COUNT[hook + ".violations"] += 1
    if len(VIOL) < 20:
        VIOL.append({"what": f"contract {hook}: {what}", "mechanism": None, "contract": hook, "witness": {k: repr(v)[:400] for k, v in witness.items()}})


def _rebind(orig, new):
    for name, mod in list(sys.modules.items()):
        if mod is None:
            continue
        if name == "__main__":
            name = getattr(getattr(mod, "__spec__", None), "name", None) or ""
        if not name.startswith("nanoemoji"):
            continue
        for attr, val in list(vars(mod).items()):
            if val is orig:
                setattr(mod, attr, new)


def _mat(t):
    return np.array([[t[0], t[2], t[4]], [t[1], t[3], t[5]], [0, 0, 1.0]])


# ---------------------------------------------------------------------------------------
# H1  paint.transformed


def _h1(paint_mod):
    orig = paint_mod.transformed
    from picosvg.svg_transform import Affine2D

    @functools.wraps(orig)
    def transformed(transform, target, *extra, **kw):
        res = orig(transform, target, *extra, **kw)
        COUNT["H1.transformed"] += 1
        try:
            if transform == Affine2D.identity():
                COUNT["H1.identity"] += 1
                if res is not target:
                    _fail("H1", "identity transform did not return the target itself", transform=transform)
                return res
            M = np.eye(3)
            p = res
            depth = 0
            while p is not target and depth < 8:
                if not paint_mod.is_transform(p):
                    _fail("H1", "wrapper chain does not end in the target", result=res)
                    return res
                M = M @ _mat(tuple(p.gettransform()))
                COUNT["H1." + type(p).__name__] += 1
                p = p.paint
                depth += 1
            want = _mat(tuple(transform))
            box = np.array([[-4096, -4096, 1], [4096, -4096, 1], [4096, 4096, 1], [-4096, 4096, 1.0]]).T
            dev = np.abs((M - want) @ box).max()
            scale = 1.0 + np.abs(want @ box).max()
            if dev > 1e-5 + 1e-6 * scale:  # almost_equal(1e-9 absolute) decisions x the 4096-unit probe box
                _fail("H1", f"emitted wrappers compose to a different affine (dev {dev:.4g})", transform=transform, result=res)
        except Exception as e:  # a broken contract must never break the code under observation
            COUNT["H1.internal_error"] += 1
        return res

    paint_mod.transformed = transformed
    _rebind(orig, transformed)


# ---------------------------------------------------------------------------------------
# H7  gradient apply_transform keeps t at corresponding points


def _grad_t(paint_mod, g, pts):
    from vf.oracle.paintref import linear_t, radial_t

    T = np.eye(3)
    depth = 0
    while paint_mod.is_transform(g) and depth < 8:
        T = T @ _mat(tuple(g.gettransform()))
        g = g.paint
        depth += 1
    q = (np.linalg.inv(T) @ np.c_[pts, np.ones(len(pts))].T).T[:, :2]
    if isinstance(g, paint_mod.PaintLinearGradient):
        return linear_t(tuple(g.p0), tuple(g.p1), tuple(g.p2), q)
    return radial_t(tuple(g.c0), g.r0, tuple(g.c1), g.r1, q)


def _h7(paint_mod):
    for cls in (paint_mod.PaintLinearGradient, paint_mod.PaintRadialGradient):
        orig = cls.apply_transform

        def make(orig, cls):
            @functools.wraps(orig)
            def apply_transform(self, transform, *extra, **kw):
                try:
                    res = orig(self, transform, *extra, **kw)
                except OverflowError:
                    COUNT["H7.overflow_raised"] += 1  # callers are expected to fall back to a wrapping transform
                    raise
                COUNT["H7." + cls.__name__] += 1
                try:
                    if isinstance(self, paint_mod.PaintLinearGradient):
                        base = np.array([tuple(self.p0), tuple(self.p1), tuple(self.p2)])
                    else:
                        base = np.array([tuple(self.c0), tuple(self.c1)])
                        base = np.vstack([base, base[1] + [self.r1, 0], base[1] + [0, self.r1 * 0.5]])
                    ctr = base.mean(0)
                    span = max(1e-6, np.abs(base - ctr).max())
                    probes = np.vstack([base, ctr + span * np.array([[0.3, 0.7], [-0.6, 0.2], [0.9, -0.4]])])
                    t_in = _grad_t(paint_mod, self, probes)
                    M = _mat(tuple(transform))
                    mapped = (M @ np.c_[probes, np.ones(len(probes))].T).T[:, :2]
                    t_out = _grad_t(paint_mod, res, mapped)
                    ok = ~(np.isnan(t_in) | np.isnan(t_out))
                    if ok.any():
                        dev = np.abs(t_in - t_out)[ok].max()
                        # the residual transform is rounded to 9 decimals by the code under observation: its effect on
                        # t grows with the condition number of the affine (ill-conditioned ones are numerically moot)
                        sv = np.linalg.svd(M[:2, :2], compute_uv=False)
                        cond = sv[0] / max(sv[1], 1e-300)
                        if dev > max(1e-4, 1e-6 * cond) * (1 + np.abs(t_in[ok]).max()):
                            _fail("H7", f"gradient parameter not preserved by apply_transform (dev {dev:.4g})", gradient=self, transform=transform, result=res)
                    if (np.isnan(t_in) != np.isnan(t_out)).any():
                        COUNT["H7.nan_mismatch"] += 1
                except Exception:
                    COUNT["H7.internal_error"] += 1
                return res

            return apply_transform

        cls.apply_transform = make(orig, cls)


# ---------------------------------------------------------------------------------------
# H2  GlyphReuseCache


def _h2(reuse_mod):
    cls = reuse_mod.GlyphReuseCache
    orig_try, orig_add = cls.try_reuse, cls.add_glyph
    from vf.oracle import geom

    from picosvg.svg_types import SVGPath as _SVGPath

    orig_round = _SVGPath.round_multiple

    def round_multiple(self_, *a, **kw):
        if _STATE["capture_round"] is not None:
            _STATE["capture_round"].append(self_.d)
        return orig_round(self_, *a, **kw)

    _SVGPath.round_multiple = round_multiple

    def _norm_log(op, self, path, fn):
        _STATE["capture_round"] = []
        try:
            out = fn()
        finally:
            pre = _STATE["capture_round"]
            _STATE["capture_round"] = None
        if len(LOG.setdefault("norm", [])) < 4000 and self._reuse_tolerance >= 0:
            post = None
            try:
                from picosvg.svg_reuse import normalize as _n

                post = _n(_SVGPath(d=path), self._normalize_tolerance).d
            except Exception:
                pass
            LOG["norm"].append({"op": op, "path": path, "pre": pre[0] if pre else None, "post": post, "norm_tol": self._normalize_tolerance, "result": (out.glyph_name if (op == "try" and out is not None) else None)})
        return out

    @functools.wraps(orig_try)
    def try_reuse(self, path, *extra, **kw):
        res = _norm_log("try", self, path, lambda: orig_try(self, path, *extra, **kw))
        COUNT["H2.try_reuse"] += 1
        try:
            if self._reuse_tolerance < 0:
                COUNT["H2.disabled"] += 1
                if res is not None:
                    _fail("H2", "reuse returned although disabled (tolerance -1)", path=path)
                return res
            if res is None:
                COUNT["H2.reuse_misses"] += 1
                return res
            COUNT["H2.reuse_hits"] += 1
            _STATE["last_hit_path"] = path
            t = tuple(res.transform)
            LOG["reuse"].append([float(v) for v in t])
            from nanoemoji.fixed import MAX_FIXED, MIN_FIXED

            if not all(MIN_FIXED <= v <= MAX_FIXED for v in t):
                _fail("H2", "reuse transform outside Fixed 16.16", transform=t)
            det = t[0] * t[3] - t[1] * t[2]
            COUNT["H2.hit_mirror" if det < 0 else "H2.hit_direct"] += 1
            donor = None
            for held in self._reusable_paths.values():
                # one (name, path) per key, or a list of them (trees that keep several donors under one normal form)
                for name, d in ([held] if isinstance(held, tuple) else held):
                    if name == res.glyph_name:
                        donor = d
            if donor is None:
                _fail("H2", "reuse names a glyph that is not in the cache", glyph=res.glyph_name)
                return res
            # flatten the donor finely enough that the chord error is still 0.02 after the reuse transform
            sig = max(1.0, float(np.linalg.svd(_mat(t)[:2, :2], compute_uv=False)[0]))
            a = [geom.apply(_mat(t), c) for c in geom.flatten_svg_d(donor, 0.02 / sig)]
            b = geom.flatten_svg_d(path, 0.02)
            if a and b:
                nseg = geom.count_segments_svg_d(path)
                H = geom.hausdorff(a, b, step=max(0.5, max(np.ptp(np.vstack(b), axis=0)) / 200))
                # picosvg accepts the transform when every *relative* path argument agrees within the tolerance (in the
                # units of `path`), so end points may drift by tolerance per segment
                allow = 2.0 * max(self._reuse_tolerance, 1e-3) * (max(1, nseg) + 1) + 0.05
                COUNT["H2.hausdorff_checked"] += 1
                if H > allow:
                    _fail("H2", f"donor mapped by the reuse transform is {H:.3f} from the path (allowed {allow:.3f})", donor=donor, path=path, transform=t)
        except Exception:
            COUNT["H2.internal_error"] += 1
        return res

    @functools.wraps(orig_add)
    def add_glyph(self, glyph_name, glyph_path, *extra, **kw):
        COUNT["H2.add_glyph"] += 1
        out = _norm_log("add", self, glyph_path, lambda: orig_add(self, glyph_name, glyph_path, *extra, **kw))
        if LOG.get("norm"):
            LOG["norm"][-1]["glyph"] = glyph_name
        return out

    cls.try_reuse = try_reuse
    cls.add_glyph = add_glyph


# ---------------------------------------------------------------------------------------
# H3  write_font._bounds, H10 counters in the migration


def _h3(wf):
    orig = wf._bounds
    from fontTools.pens.boundsPen import ControlBoundsPen
    from fontTools.pens.transformPen import TransformPen

    def walk(paint, T, out, paint_mod):
        if isinstance(paint, paint_mod.PaintGlyph):
            out.append((paint.glyph, T))
            return
        M = T
        if paint_mod.is_transform(paint):
            M = T @ _mat(tuple(paint.gettransform()))
        for ch in paint.children():
            walk(ch, M, out, paint_mod)

    @functools.wraps(orig)
    def _bounds(color_glyph, quantize_factor=1, *extra, **kw):
        res = orig(color_glyph, quantize_factor, *extra, **kw)  # signature-agnostic: a refactoring may add parameters
        COUNT["H3._bounds"] += 1
        try:
            from nanoemoji import paint as paint_mod

            leaves = []
            for root in color_glyph.painted_layers:
                walk(root, np.eye(3), leaves, paint_mod)
            box = None
            for gname, T in leaves:
                pen = ControlBoundsPen(color_glyph.ufo)
                tp = TransformPen(pen, (T[0, 0], T[1, 0], T[0, 1], T[1, 1], T[0, 2], T[1, 2]))
                color_glyph.ufo[gname].draw(tp)
                if pen.bounds is None:
                    continue
                b = pen.bounds
                box = b if box is None else (min(box[0], b[0]), min(box[1], b[1]), max(box[2], b[2]), max(box[3], b[3]))
            if box is None:
                if res is not None:
                    _fail("H3", "clip box for a glyph that paints nothing", result=res)
            else:
                if res is None:
                    _fail("H3", "no clip box although something is painted", want=box)
                elif res[0] > box[0] + 1.0 + 1e-6 or res[1] > box[1] + 1.0 + 1e-6 or res[2] < box[2] - 1.0 - 1e-6 or res[3] < box[3] - 1.0 - 1e-6:
                    _fail("H3", "clip box does not contain the transformed control bounds", result=res, want=box, glyph=color_glyph.ufo_glyph_name)
                elif quantize_factor > 1 and any(v % quantize_factor for v in res):
                    _fail("H3", "clip box edge not a multiple of the quantisation step", result=res, step=quantize_factor)
        except Exception:
            COUNT["H3.internal_error"] += 1
        return res

    wf._bounds = _bounds
    _rebind(orig, _bounds)

    orig_create = wf._create_glyph

    @functools.wraps(orig_create)
    def _create_glyph(color_glyph, paint, path_in_font_space, *extra, **kw):
        COUNT["H10.glyph_created"] += 1
        if _STATE["last_hit_path"] is not None and _STATE["last_hit_path"] == path_in_font_space:
            COUNT["H10.reuse_declined_overflow"] += 1
        _STATE["last_hit_path"] = None
        return orig_create(color_glyph, paint, path_in_font_space, *extra, **kw)

    wf._create_glyph = _create_glyph
    _rebind(orig_create, _create_glyph)


# ---------------------------------------------------------------------------------------
# H4 palette, H5 config round trip, H6 csv round trip, H8 glyph names


def palette_spec(colors_in, result):
    """The palette sentence of C15 as a predicate over (input colours, returned list).
    Colours are nanoemoji Color namedtuples (red, green, blue, alpha, palette_index)."""
    cols = set(colors_in)
    if not result:
        return "palette is empty"
    black = (0, 0, 0, 1.0)
    if not cols:
        return "" if [tuple(c[:4]) for c in result] == [black] else "empty input must give one black entry"
    idx = {}
    for c in cols:
        if c.palette_index is not None:
            idx[c.palette_index] = c
    want_len = max(len(cols), max(idx, default=-1) + 1)
    if len(result) != want_len:
        return f"palette length {len(result)} != {want_len}"
    for i, c in idx.items():
        if result[i] != c:
            return f"indexed colour {c} not at index {i}"
    # "unindexed colours fill the lowest free slots in a deterministic order": which order is not
    # stated (today: ascending RGBA), so only the slot *set* is required here; determinism is checked
    # by callers through input-order independence
    un = [c for c in cols if c.palette_index is None]
    free = [i for i in range(want_len) if i not in idx]
    got_un = [result[i] for i in free[: len(un)]]
    if sorted(map(tuple, got_un)) != sorted(map(tuple, un)):
        return f"unindexed colours {sorted(map(tuple, un))} do not occupy the lowest free slots {free[:len(un)]}: found {got_un}"
    for i in free[len(un):]:
        if tuple(result[i][:4]) != black:
            return f"gap {i} is not black"
    for c in cols:
        if c not in result:
            return f"colour {c} missing"
    return ""


def _h4(colors_mod):
    orig = colors_mod.uniq_sort_cpal_colors

    @functools.wraps(orig)
    def uniq_sort_cpal_colors(colors, *extra, **kw):
        colors = list(colors)
        res = orig(iter(colors), *extra, **kw)
        COUNT["H4.palette"] += 1
        try:
            msg = palette_spec(colors, res)
            if msg:
                _fail("H4", msg, colors=sorted(set(colors)), result=res)
        except Exception:
            COUNT["H4.internal_error"] += 1
        return res

    colors_mod.uniq_sort_cpal_colors = uniq_sort_cpal_colors
    _rebind(orig, uniq_sort_cpal_colors)


def config_diff(a, b, base_dir):
    """Field-by-field difference of two FontConfigs; sources compared after resolving against base_dir."""
    import os

    diffs = []
    for f in a._fields:
        x, y = getattr(a, f), getattr(b, f)
        if f == "masters":
            if len(x) != len(y):
                diffs.append(f"masters: {len(x)} vs {len(y)}")
                continue
            for mx, my in zip(x, y):
                for mf in mx._fields:
                    vx, vy = getattr(mx, mf), getattr(my, mf)
                    if mf == "sources":
                        vx = tuple(sorted(os.path.normpath(os.path.join(base_dir, str(p))) for p in vx))
                        vy = tuple(sorted(os.path.normpath(os.path.join(base_dir, str(p))) for p in vy))
                    if vx != vy:
                        diffs.append(f"master {mx.name}.{mf}: {vx!r} vs {vy!r}")
        elif f == "transform":
            if tuple(x) != tuple(y):
                diffs.append(f"transform: {tuple(x)} vs {tuple(y)}")
        elif x != y:
            diffs.append(f"{f}: {x!r} vs {y!r}")
    return diffs


def _h5(cfgmod):
    orig = cfgmod.write

    @functools.wraps(orig)
    def write(dest, config, *extra, **kw):
        res = orig(dest, config, *extra, **kw)
        COUNT["H5.config_write"] += 1
        try:
            back = cfgmod.load(dest)
            d = config_diff(config, back, str(dest.parent))
            if d:
                _fail("H5", "config written != config loaded back: " + "; ".join(d[:5]), dest=dest)
        except Exception as e:
            COUNT["H5.reload_raised"] += 1
            _fail("H5", f"config.load of the file just written raised {type(e).__name__}: {e}", dest=dest)
        return res

    cfgmod.write = write
    _rebind(orig, write)


def _h6(gm):
    cls = gm.GlyphMapping
    orig = cls.csv_line

    @functools.wraps(orig)
    def csv_line(self, *extra, **kw):
        line = orig(self, *extra, **kw)
        COUNT["H6.csv_line"] += 1
        try:
            back = gm.load_from(io.StringIO(line))
            if len(back) != 1 or back[0] != self:
                _fail("H6", "glyph mapping does not survive the CSV round trip", mapping=self, line=line, back=back)
        except Exception as e:
            _fail("H6", f"load_from raised {type(e).__name__} on the line csv_line produced", mapping=self, line=line)
        return line

    cls.csv_line = csv_line


NAMES = {}


def _h8(glyph_mod):
    orig = glyph_mod.glyph_name

    @functools.wraps(orig)
    def glyph_name(codepoints, *extra, **kw):
        name = orig(codepoints, *extra, **kw)
        COUNT["H8.glyph_name"] += 1
        try:
            cps = tuple(codepoints)
        except TypeError:
            cps = (codepoints,)
        prev = NAMES.setdefault(name, cps)
        if prev != cps:
            COUNT["H8.collisions"] += 1
            if len(LOG.setdefault("name_collisions", [])) < 10:
                LOG["name_collisions"].append({"name": name, "a": list(prev), "b": list(cps)})
        return name

    glyph_mod.glyph_name = glyph_name
    _rebind(orig, glyph_name)


# ---------------------------------------------------------------------------------------
# H9  svg._create_use_element: what was asked for vs what was written


def _h9(svg_mod):
    orig = svg_mod._create_use_element
    from vf.oracle.svgeval import parse_transform

    @functools.wraps(orig)
    def _create_use_element(svg, parent_el, reuse_result, *extra, **kw):
        el = orig(svg, parent_el, reuse_result, *extra, **kw)
        COUNT["H9.use"] += 1
        try:
            M = parse_transform(el.get("transform")) @ _mat((1, 0, 0, 1, float(el.get("x", "0")), float(el.get("y", "0"))))
            want = _mat(tuple(reuse_result.transform))
            LOG["use"].append({"glyph": reuse_result.glyph_name, "exact": [float(v) for v in reuse_result.transform], "emitted": [M[0, 0], M[1, 0], M[0, 1], M[1, 1], M[0, 2], M[1, 2]]})
            lin = np.abs(M[:2, :2] - want[:2, :2]).max()
            if lin > 0.00051:
                _fail("H9", f"<use> matrix differs from the reuse transform by {lin:.5f} (> 3-decimal rounding)", want=tuple(reuse_result.transform), x=el.get("x"), y=el.get("y"), transform=el.get("transform"))
        except Exception:
            COUNT["H9.internal_error"] += 1
        return el

    svg_mod._create_use_element = _create_use_element
    _rebind(orig, _create_use_element)


def _mod(name):
    m = sys.modules.get(name)
    main = sys.modules.get("__main__")
    if m is None and main is not None and getattr(getattr(main, "__spec__", None), "name", None) == name:
        m = main
    return m


def install(only=None, loaded_only=False):
    """Wrap the real functions.  loaded_only: inside a CLI step only modules the step has already imported are
    touched (importing another step module would define its absl flags twice)."""
    global _INSTALLED
    if _INSTALLED:
        return
    _INSTALLED = True
    if not loaded_only:
        from nanoemoji import colors, config, glyph, glyph_reuse, glyphmap, paint, svg, write_font  # noqa
    for name, fn in (
        ("nanoemoji.paint", _h1),
        ("nanoemoji.paint", _h7),
        ("nanoemoji.glyph_reuse", _h2),
        ("nanoemoji.write_font", _h3),
        ("nanoemoji.colors", _h4),
        ("nanoemoji.config", _h5),
        ("nanoemoji.glyphmap", _h6),
        ("nanoemoji.glyph", _h8),
        ("nanoemoji.svg", _h9),
    ):
        m = _mod(name)
        if m is not None:
            try:
                fn(m)
            except Exception:
                COUNT["install_error." + name] += 1
