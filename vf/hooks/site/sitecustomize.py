"""Loaded (through PYTHONPATH) by the nanoemoji driver, picosvg and every `python -m nanoemoji.*` ninja step
of the CLI lane.  Inert unless NANOEMOJI_VERIF=1.  Logs step events, perturbs schedules, injects faults,
optionally installs the runtime contracts."""
import atexit
import json
import os
import signal
import sys
import time

if os.environ.get("NANOEMOJI_VERIF") == "1" and os.environ.get("VERIF_EVENTS"):
    _argv = list(getattr(sys, "orig_argv", sys.argv))

    def _step_id():
        a = _argv
        name = None
        for i, x in enumerate(a):
            if x == "-m" and i + 1 < len(a):
                name = a[i + 1]
                break
        if name is None:
            for x in a[1:3]:
                b = os.path.basename(x)
                if b in ("nanoemoji", "maximum_color", "picosvg"):
                    name = b
                    break
        if name is None:
            return None, None
        out = None
        for i, x in enumerate(a):
            if x in ("--output_file", "-o") and i + 1 < len(a):
                out = a[i + 1]
            elif x.startswith("--output_file="):
                out = x.split("=", 1)[1]
        if name == "zopfli.png" and len(a) >= 2:
            out = a[-1]
        if name in ("nanoemoji.write_font", "nanoemoji.write_variable_font"):
            for i, x in enumerate(a):
                if x == "--config_file" and i + 1 < len(a):
                    out = "font:" + a[i + 1]
        return name, out

    _name, _out = _step_id()
    if _name is not None:
        _ev = os.environ["VERIF_EVENTS"]

        def _log(kind, **kw):
            rec = dict(t=time.monotonic_ns(), pid=os.getpid(), step=_name, out=_out, kind=kind, **kw)
            try:
                fd = os.open(_ev, os.O_WRONLY | os.O_APPEND | os.O_CREAT, 0o644)
                os.write(fd, (json.dumps(rec) + "\n").encode())
                os.close(fd)
            except OSError:
                pass

        _is_driver = _name in ("nanoemoji", "maximum_color")
        _log("step_start", argv=_argv[:12])

        # ---- schedule perturbation
        _d = os.environ.get("VERIF_DELAY_MS")
        if _d and not _is_driver:
            import random

            _r = random.Random(f"{os.environ.get('VERIF_DELAY_SEED', '0')}:{_name}:{_out}")
            time.sleep(_r.uniform(0, float(_d)) / 1000.0)

        # ---- faults: VERIF_FAULT = "<step>|<out-substring>|<mode>" ; modes: fail, kill_truncate
        _f = os.environ.get("VERIF_FAULT")
        _fault = None
        if _f:
            fs, fo, fm = (_f.split("|") + ["", "", ""])[:3]
            if fs == _name and (not fo or (fo in (_out or ""))):
                _fault = fm
        if _fault == "fail":
            _log("fault", mode="fail")
            sys.stderr.write("VERIF injected failure\n")
            os._exit(3)

        def _at_exit():
            if _fault == "kill_truncate":
                target = _out
                if target and target.startswith("font:"):
                    target = None
                    try:
                        import toml  # noqa

                        cfg = toml.load(_out[5:])
                        target = cfg.get("output_file")
                    except Exception:
                        pass
                try:
                    if target and os.path.exists(target):
                        if os.path.isdir(target):
                            import shutil

                            for n in os.listdir(target)[:1]:
                                p = os.path.join(target, n)
                                shutil.rmtree(p) if os.path.isdir(p) else os.remove(p)
                        else:
                            sz = os.path.getsize(target)
                            with open(target, "r+b") as fh:
                                fh.truncate(sz // 2)
                except OSError:
                    pass
                _log("fault", mode="kill_truncate", target=target)
                os.kill(os.getpid(), signal.SIGKILL)
            _log("step_end")

        atexit.register(_at_exit)

        # ---- driver faults: die after the config write / after the k-th build statement
        _df = os.environ.get("VERIF_DRIVER_FAULT")
        if _is_driver and _df:
            import builtins

            _orig_import = builtins.__import__
            _state = {"n": 0, "done": False}

            def _arm():
                if _state["done"]:
                    return
                try:
                    nj = sys.modules.get("nanoemoji.ninja")
                    cf = sys.modules.get("nanoemoji.config")
                    if nj is None or cf is None or not hasattr(nj, "maybe_run_ninja") or not hasattr(cf, "load_configs"):
                        return  # still being imported
                    _state["done"] = True
                    kind, _, k = _df.partition(":")
                    if kind == "after_config_write":
                        ow = cf.write

                        def write(dest, config):
                            r = ow(dest, config)
                            _log("fault", mode="driver_after_config_write")
                            os.kill(os.getpid(), signal.SIGKILL)
                            return r

                        cf.write = write
                        nm = sys.modules.get("nanoemoji.nanoemoji")
                    elif kind == "after_build":
                        ob = nj.NinjaWriter.build
                        limit = int(k or "1")

                        def build(self, *a, **kw):
                            r = ob(self, *a, **kw)
                            _state["n"] += 1
                            if _state["n"] >= limit:
                                try:
                                    self._nw.output.flush()
                                except Exception:
                                    pass
                                _log("fault", mode=f"driver_after_build:{limit}")
                                os.kill(os.getpid(), signal.SIGKILL)
                            return r

                        nj.NinjaWriter.build = build
                except Exception:
                    pass

            def _imp(name, *a, **kw):
                m = _orig_import(name, *a, **kw)
                if not _state["done"] and "nanoemoji.ninja" in sys.modules and "nanoemoji.config" in sys.modules:
                    _arm()
                return m

            builtins.__import__ = _imp

        # ---- contracts inside the step (optional: costs a numpy import per step).  Every step and the driver
        # enter through absl.app.run(main): install the wrappers there, when all modules are fully imported.
        if os.environ.get("VERIF_CONTRACTS") == "1" and _name.startswith(("nanoemoji", "maximum_color")) and _name not in ("nanoemoji.pngquant",):
            try:
                import absl.app as _app

                _orig_run = _app.run

                def _run(main, *a, **k):
                    try:
                        from vf.hooks import contracts

                        contracts.install(loaded_only=True)

                        def _dump():
                            cnt = contracts.counters()
                            if cnt or contracts.violations():
                                _log("contracts", counters=cnt, violations=contracts.violations()[:5])

                        atexit.register(_dump)
                    except Exception as e:
                        _log("contracts_error", error=repr(e)[:300])
                    return _orig_run(main, *a, **k)

                _app.run = _run
            except Exception as e:
                _log("contracts_error", error=repr(e)[:300])
